"""C01.S - search discipline of the graph searches (shared by C01, C12.MONO, C14.R3): hierarchy/import classification before use,
push / record / mark conditions, object sets.  The model of the searches is built by rules/search.py on normalised inline views
of the public search functions, so the obligations below are about *events with guards*, not about one spelling of the loops.

Every obligation has three outcomes: discharged, VIOLATED (the construct that breaks the necessary condition is named) or
undecided (the guard talks about a node set whose provenance the model cannot establish)."""

from __future__ import annotations

import ast
import re

from core.guards import Formula, atom, atoms_of, f_and, f_not, f_or, implies
from core.loader import AnalysisError, Repo, norm
from core.report import Result

from . import search as S
from .common import cfg_of, dotted, helper_object_sources, stmt_of, where


def _hier_args(repo: Repo, call: ast.Call) -> list[str]:
    hp = S._hier_params(repo)
    args = {p: dotted(a) for p, a in zip(hp, call.args)}
    for k in call.keywords:
        if k.arg:
            args[k.arg] = dotted(k.value)
    if len(hp) == 2 and all(p in args for p in hp):
        return [args[hp[0]], args[hp[1]]]
    return [dotted(a) for a in call.args]


def _known_sets(m: S.SearchModel) -> set[str]:
    return set(m.submodule_sets) | set(m.accumulated_sets) | set(m.parent_id_sets) | set(m.visited_sets)


def _unknown_sets(m: S.SearchModel, guard: Formula, variables: list[str]) -> list[str]:
    """Node sets of unknown provenance whose membership the guard tests for one of the variables."""
    known = _known_sets(m)
    out = []
    for a in sorted(atoms_of(guard)):
        for v in variables:
            if a.startswith(f"{v} in "):
                s = a[len(v) + 4:]
                if s not in known and s not in out and S.opaque_set(m, s):
                    out.append(s)
    return out


def unresolved_subtree_sets(m: S.SearchModel, guard: Formula, variables: list[str]) -> list[str]:
    """Node sets the guard tests one of the variables against that are computed from sub-tree lookups in a way the model did not
    resolve into the subject's / the objects' sets: what the test says about those sets is unknown - not known to be nothing."""
    known = _known_sets(m)
    out: list[str] = []
    for a in sorted(atoms_of(guard)):
        for v in variables:
            if a.startswith(f"{v} in "):
                x = a[len(v) + 4:]
                if x in known or x in out or not x.isidentifier():
                    continue
                # a set made of the known sets only (a union taken too early, a snapshot) is resolved - whatever the test then lacks, it lacks
                if "subtree" in S.provenance(m, ast.Name(id=x, ctx=ast.Load()), stop=known):
                    out.append(x)
    return out


def run_search(repo: Repo, res: Result) -> None:
    ms = S.models(repo)
    n = 0
    # a sub-module search that does not walk the graph at all but tests names
    for f in S.findings(repo):
        n += 1
        res.add("C01.S", repo.key(f.fi, stmt_of(f.node)) + " [sub modules from hierarchy edges]", False, f.detail, where(f.fi, f.node), kind="structural")
    for m in ms:
        fi = m.fi
        # orientation of the hierarchy test
        for hc in m.hier_calls:
            a = _hier_args(repo, hc)
            if len(a) != 2 or m.popped not in a:
                continue  # not a test on an edge of the current node; whether events are classified is decided on their guards
            # the current node is the parent side for a successor expansion, the child side for a predecessor expansion; the other
            # side is the neighbour under whatever name the enclosing loop / comprehension / lambda binds it
            pos = 0 if m.direction == "succ" else 1
            ok = a[pos] == m.popped and a[1 - pos] != m.popped
            want = f"({m.popped}, <neighbour>)" if m.direction == "succ" else f"(<neighbour>, {m.popped})"
            n += 1
            res.add(
                "C01.S",
                repo.key(fi, stmt_of(hc)) + " [hierarchy test orientation]",
                ok,
                f"parent_child_relationship({', '.join(a)})" + ("" if ok else f": expected {want} for a {'successor' if m.direction == 'succ' else 'predecessor'} expansion"),
                where(fi, hc),
                kind="structural",
            )
        for ev in m.events:
            if not ev.in_neighbour_loop:
                continue
            n += 1
            key = repo.key(fi, stmt_of(ev.call))
            H = m.hier(ev.nvar)
            is_h = implies(ev.guard, H)
            not_h = implies(ev.guard, f_not(H))
            if not is_h and not not_h and ev.kind != "mark" and not any(f".{S.HIER}(" in a for e2 in m.events for a in atoms_of(e2.guard)):
                res.add("C01.S", key, False, f"{ev.kind} of `{ev.what}` although neighbours are never classified by {S.HIER}", where(fi, ev.call), kind="dominance")
                continue
            if ev.kind == "record":
                if m.role == "submodules":
                    ok = is_h
                    detail = "sub modules are collected along hierarchy edges only" if ok else f"`{ev.what}` is collected as a sub module under `{ev.guard_text}`, which does not restrict it to hierarchy edges: imported modules would count as sub modules"
                else:
                    ok = not_h
                    detail = "recorded only on the import (non-hierarchy) branch" if ok else f"a pair is recorded under `{ev.guard_text}`, which does not exclude hierarchy edges: a package would 'import' its own sub modules"
                    if ok:
                        pair = S.record_pair(m, ev)
                        want = (m.popped, ev.nvar) if m.direction == "succ" else (ev.nvar, m.popped)
                        if pair is None:
                            res.undecide("C01.S", key + " [record]", f"cannot tell in which order `{ev.what}` names the current node `{m.popped}` and its neighbour `{ev.nvar}`", where(fi, ev.call))
                        elif pair != want:
                            ok = False
                            detail = f"recorded pair is {pair}, expected (importer, importee) = {want}"
            elif ev.kind == "push":
                if m.role in ("explicit", "submodules"):
                    ok = is_h
                    detail = "worklist extended along hierarchy edges only" if ok else f"`{ev.what}` is pushed under `{ev.guard_text}`: the search follows import edges and attributes imports of imported modules to the subject"
                else:
                    ok = is_h or not_h
                    detail = "push classified by edge kind" if ok else f"`{ev.what}` is pushed before the edge kind is known (`{ev.guard_text}`)"
            else:  # mark
                pushes = [p for p in m.events if p.kind == "push" and p.what == ev.what]
                ok = ev.what == m.popped or (bool(pushes) and implies(ev.guard, f_or([p.guard for p in pushes])))
                detail = "only expanded nodes are marked visited" if ok else f"`{ev.what}` is marked visited under `{ev.guard_text}` without being pushed under the same condition: a module first seen through an import edge is never expanded"
            res.add("C01.S", key + f" [{ev.kind}]", ok, detail, where(fi, ev.call), kind="dominance")
        # marks outside the neighbour loop: only the popped node
        for ev in m.events:
            if ev.kind == "mark" and not ev.in_neighbour_loop:
                n += 1
                ok = ev.what == m.popped
                res.add("C01.S", repo.key(fi, stmt_of(ev.call)) + " [mark]", ok, "popped node marked visited" if ok else f"`{ev.what}` marked visited instead of the popped node", where(fi, ev.call), kind="structural")
        # two visited disciplines must not be mixed on one set: a node marked when it is *pushed* and a pop-time test that skips
        # marked nodes mean that nothing that is pushed is ever expanded - and a node of the start list that is reached through an
        # edge before its own turn is marked by that push and then skipped, so its edges are never looked at
        for vs in m.visited_sets:
            push_marks = [e for e in m.events if e.kind == "mark" and e.in_neighbour_loop and e.receiver == vs and e.what != m.popped and any(p.kind == "push" and p.what == e.what for p in m.events)]
            if not push_marks:
                continue
            for c in (m.neighbour_calls or [m.neighbour_call]):
                reached = S.conds_formula(S.control_conditions(fi.node, c), m.subst)
                a_ = f"{m.popped} in {vs}"
                if a_ in atoms_of(reached) and implies(reached, f_not(atom(a_))):
                    n += 1
                    pm = push_marks[0]
                    res.add(
                        "C01.S", repo.key(fi, stmt_of(pm.call)) + " [marked when pushed, skipped when popped]", False,
                        f"`{norm(pm.call)}` marks `{pm.what}` when it is pushed, and a popped node that is in `{vs}` is skipped before `{norm(c)}`: a pushed node is never expanded, and a node of the start list `{m.worklist}` that is reached through an edge "
                        f"before its own turn is marked by the push and never analysed - its imports vanish (and whether they vanish depends on the other imports: monotonicity)",
                        where(fi, pm.call), kind="dominance",
                    )
                    break
        # every neighbour of an expanded node and every node of the worklist is examined: the searches collect all pairs / all sub
        # modules (none is an existence query), so leaving the neighbour iteration or the node loop on a condition skips edges -
        # and whether an edge is skipped then depends on which other edges exist (monotonicity)
        exits = S.early_exits(m)
        for lp, kind_ in [(i.node, "neighbour") for i in m.neighbour_iters if i.gen is None] + ([(m.loop, "outer")] if m.outer_kind in ("while", "for") else []):
            mine = [x for x in exits if x.loop is lp]
            if not mine:
                n += 1
                res.add("C01.S", repo.key(fi, lp) + f" [{'every neighbour' if kind_ == 'neighbour' else 'every worklist node'} examined]", True, "the loop is only left when it is exhausted (continue / guard clauses skip single elements)", where(fi, lp), kind="structural")
            for x in mine:
                n += 1
                what = "break" if isinstance(x.stmt, ast.Break) else norm(x.stmt)
                if kind_ == "neighbour":
                    detail = f"`{what}` under `{x.guard_text}` leaves the iteration over `{norm(m.neighbour_call)}`: the remaining neighbours of `{m.popped}` are never classified, pushed or recorded (neighbours come sorted, so one import can hide later ones: adding an import removes reported pairs)"
                else:
                    detail = f"`{what}` under `{x.guard_text}` leaves the node loop while `{m.worklist}` may still hold nodes: their imports are never examined"
                res.add("C01.S", repo.key(fi, x.anchor) + f" [early exit from the {'neighbour' if kind_ == 'neighbour' else 'node'} loop]", False, detail, where(fi, x.stmt), kind="dominance")
        # adjustments of the sub-tree sets: only the identifier of a 'sub modules of' filter is taken out / put in (a named module
        # stands for itself and all its descendants; 'sub modules of X' for X's strict descendants)
        for op in m.set_ops:
            if not op.what.endswith("." + S.NODE_ATTR):
                continue
            owner = op.what[: -len(S.NODE_ATTR) - 1]
            n += 1
            ok = implies(op.guard, atom(f"bool({owner}.{S.PARENT_FLAG})"))
            res.add(
                "C01.S",
                repo.key(fi, stmt_of(op.node)) + " [sub-tree adjustment]",
                ok,
                f"`{op.what}` is {'added to' if op.kind == 'add' else 'taken out of'} `{op.var}` only for a 'sub modules of' filter" if ok else f"`{op.what}` is {'added to' if op.kind == 'add' else 'taken out of'} the sub-tree set `{op.var}` although `{owner}` need not be a 'sub modules of' filter: a named module no longer stands for itself and all its descendants",
                where(fi, op.node),
                kind="dominance",
            )
        rec = [e for e in m.events if e.kind == "record" and e.in_neighbour_loop]
        pushes = [e for e in m.events if e.kind == "push"]
        # the model must have seen what the role needs, otherwise nothing above was checked
        if m.role in ("explicit", "other") and not rec:
            res.undecide("C01.S", repo.key(fi, m.neighbour_loop if isinstance(m.neighbour_loop, ast.stmt) else stmt_of(m.neighbour_loop)), f"no result is recorded inside the iteration over `{norm(m.neighbour_call)}` (results built in a later pass are not modelled)", where(fi, m.neighbour_call))
        for e in pushes:
            if not e.in_neighbour_loop:
                res.undecide("C01.S", repo.key(fi, stmt_of(e.call)) + " [push]", f"`{e.what}` is pushed outside the neighbour iteration and the model cannot trace its elements back to classified neighbours", where(fi, e.call))
        if m.role in ("explicit", "submodules") and not pushes:
            res.undecide("C01.S", repo.key(fi, m.loop), "the search never extends its worklist: descendants of the start module are not reached by a push the model recognises", where(fi, m.loop))
        if m.role == "explicit":
            # S4: object set is the object's whole subtree; both endpoints must not be 'sub modules of' parents
            subj_param = m.subject_param or fi.param_names[1]
            obj_param = m.object_param or fi.param_names[2]
            batched = obj_param in m.collection_params  # one walk answers for a whole collection of objects
            obj_sets = [v for v, p in m.submodule_sets.items() if p == obj_param] + [d for d, nm in m.node_maps.items() if obj_param in (nm.collection, nm.param)]
            excls = [v for v, ps in m.parent_id_sets.items() if sorted(ps) == sorted([subj_param, obj_param])]
            for e in rec:
                if batched:
                    # 'edge' requirements are judged per subject/object pair: an import into the sub-tree of an object belongs to
                    # the answer for that object - for every object whose sub-tree holds the target, not for one of them
                    kvar, nmap, how = S.filed_under(m, e)
                    each = S.each_object(m, e) if nmap is None else None
                    n += 1
                    key = repo.key(fi, stmt_of(e.call)) + " [every pair gets its imports]"
                    if each is not None:
                        # `for o in objects: if neighbour in sub_tree[o]: result[o].append(..)`: every object is asked - as long as the loop is not left
                        kvar, each_sets, each_loop = each
                        how = "each"
                        leaves = [x for b in each_loop.body for x in ast.walk(b) if isinstance(x, (ast.Break, ast.Return))]
                        if leaves:
                            res.add("C01.S", key, False, f"the loop over the objects `{norm(each_loop.iter)}` is left (`{norm(leaves[0])}`) once the import is filed under one of them: an object that comes later and whose sub-tree holds `{e.nvar}` as well (a package and one of its sub packages named in the same rule) never gets this import", where(fi, leaves[0]), kind="dominance")
                        else:
                            res.add("C01.S", key, True, f"every object of `{obj_param}` is asked whether its sub-tree holds `{e.nvar}`", where(fi, e.call), kind="dominance")
                        obj_sets = obj_sets + [x for x in each_sets if x not in obj_sets]
                    elif nmap is not None and how == "lookup" and nmap.single:
                        res.add(
                            "C01.S", key, False,
                            f"the import is filed under the one object `{norm(e.key) if kvar is None else kvar} = {nmap.var}[{e.nvar}]`, and `{norm(nmap.store)}` keeps one object per node: when the sub-trees of two objects of "
                            f"`{obj_param}` overlap (a package and one of its sub packages named in the same rule) the node is overwritten and the pair of the other object never gets this import "
                            f"(a named module stands for itself and all its descendants, and every subject/object pair is judged on its own)",
                            where(fi, nmap.store), kind="dominance",
                        )
                    elif nmap is not None and how == "loop" and not nmap.single:
                        res.add("C01.S", key, True, f"the import is filed under every object whose sub-tree holds `{e.nvar}`", where(fi, e.call), kind="dominance")
                    else:
                        res.undecide("C01.S", key, f"cannot tell under which object(s) of `{obj_param}` the pair `{e.what}` is filed (key: `{norm(e.key) if e.key is not None else 'none'}`)", where(fi, e.call))
                    if kvar is not None:
                        excls = [v for v, ps in m.parent_id_sets.items() if sorted(ps) == sorted([subj_param, kvar]) and _same_object(m, v, e, kvar)]
                n += 1
                ok = any(implies(e.guard, atom(f"{e.nvar} in {s}")) for s in obj_sets)
                if not ok and batched and how == "loop" and nmap is not None and nmap.var in obj_sets:
                    ok = True  # bound by iterating the map entry of the neighbour: only objects whose sub-tree holds it
                if not ok and batched and how == "lookup" and nmap is not None and nmap.var in obj_sets and kvar is not None and implies(e.guard, f_not(atom(f"{kvar} is None"))):
                    ok = True  # `o = D.get(neighbour)` and `o is not None`: the neighbour is a key of the map
                if batched and nmap is not None and nmap.collection == nmap.var and not getattr(nmap, "from_caller", False) and ok:
                    # the lookup is a parameter and no caller shows how it is filled: that its keys are the objects' sub-trees is the caller's business
                    res.undecide("C01.S", repo.key(fi, stmt_of(e.call)) + " [object subtree]", f"the node -> object lookup `{nmap.var}` is handed in and the model found no caller that builds it from {S.SUBMODULES}", where(fi, e.call))
                    n -= 1
                    ok = None
                unknown = [] if ok else _unknown_sets(m, e.guard, [e.nvar])
                key = repo.key(fi, stmt_of(e.call)) + " [object subtree]"
                if ok is None:
                    pass  # reported as undecided above
                elif not ok and unknown and not obj_sets:
                    res.undecide("C01.S", key, f"the recorded target is restricted to `{unknown[0]}`, a set the model cannot relate to {S.SUBMODULES}(graph, {obj_param})", where(fi, e.call))
                else:
                    res.add(
                        "C01.S",
                        key,
                        ok,
                        f"target must lie in {S.SUBMODULES}(graph, {obj_param})" if ok else f"the recorded target is not restricted to the object's subtree {S.SUBMODULES}(graph, {obj_param}) (a named module stands for itself and all its descendants)",
                        where(fi, e.call),
                        kind="dominance",
                    )
                n += 1
                ok = any(implies(e.guard, f_and([f_not(atom(f"{m.popped} in {x}")), f_not(atom(f"{e.nvar} in {x}"))])) for x in excls)
                unknown = [] if ok else _unknown_sets(m, e.guard, [m.popped, e.nvar])
                key = repo.key(fi, stmt_of(e.call)) + " [strict descendants]"
                if not ok and unknown and not excls:
                    res.undecide("C01.S", key, f"both ends are tested against `{unknown[0]}`, a set the model cannot relate to the parent-module identifiers of ({subj_param}, {obj_param})", where(fi, e.call))
                else:
                    res.add(
                        "C01.S",
                        key,
                        ok,
                        "'sub modules of X' excludes X itself on both sides" if ok else "the parent of a 'sub modules of' filter is not excluded on both sides of the recorded import",
                        where(fi, e.call),
                        kind="dominance",
                    )
        if m.role == "other":
            subj = m.subject_param or (fi.param_names[1] if m.direction == "succ" else fi.param_names[2])
            own = [v for v, p in m.submodule_sets.items() if p == subj]
            exc = [v for v, p in m.accumulated_sets.items() if p != subj]
            if not own or not exc:
                res.undecide("C01.S", repo.key(fi, m.loop), f"the subject's own sub-tree ({S.SUBMODULES}(graph, {subj})) / the accumulated sub-trees of the objects are not recognised (own: {own}, excluded: {exc})", where(fi, m.loop))
                continue
            for e in rec:
                n += 1
                ok = any(implies(e.guard, f_not(atom(f"{e.nvar} in {x}"))) for x in exc) and any(implies(e.guard, f_not(atom(f"{e.nvar} in {o}"))) for o in own)
                unresolved = [] if ok else unresolved_subtree_sets(m, e.guard, [e.nvar])
                if unresolved:
                    res.undecide("C01.S", repo.key(fi, stmt_of(e.call)) + " [something else]", f"the pair is recorded under `{e.guard_text}`: `{unresolved[0]}` is computed from sub-tree lookups in a way the model cannot relate to the subject's sub-tree `{own[0]}` / the objects `{exc[0]}`", where(fi, e.call))
                    continue
                res.add(
                    "C01.S",
                    repo.key(fi, stmt_of(e.call)) + " [something else]",
                    ok,
                    "recorded only if the other end is neither inside the subject nor an excluded object" if ok else f"an import is reported as 'something else' under `{e.guard_text}`, which does not exclude the subject's own subtree `{own[0]}` and the objects `{exc[0]}`",
                    where(fi, e.call),
                    kind="dominance",
                )
            n += _exempt_sets_exact(repo, res, m, subj, own, exc, rec)
            n += _own_subtree_expanded(repo, res, m, subj, own, exc)
            # the subject set skips exactly itself when accumulating the excluded set
            for st in m.subtree_sites:
                if st.collection is None or st.target not in exc:
                    continue
                n += 1
                a, b = sorted([st.arg, subj])
                skip_ok = subj in st.implicit_skips or implies(st.guard, f_not(atom(f"{a} == {b}")))
                res.add(
                    "C01.S",
                    repo.key(fi, stmt_of(st.call)) + " [subject not excluded from itself]",
                    skip_ok,
                    "an object equal to the subject does not exclude the subject's own subtree" if skip_ok else "the subject's own subtree can be put into the excluded set (the alias 'anything' = 'except itself' would examine nothing)",
                    where(fi, st.call),
                    kind="dominance",
                )
    # vacuity is excluded per search by the role requirements above (models() demands all four searches, every explicit / other
    # search must record inside its neighbour iteration, explicit / sub-module searches must push); the floor is a backstop
    res.floor("C01.S", 12, n)


def _same_object(m: S.SearchModel, setvar: str, ev: S.Event, kvar: str) -> bool:
    """The parent-identifier set `setvar` was computed from the same value of the object variable `kvar` the event is filed under:
    both sit in one iteration of the neighbour loop, after the only assignment to `kvar` in it (or inside the loop that binds it)."""

    fn = m.fi.node
    defs = [n for n in ast.walk(fn) if isinstance(n, (ast.Assign, ast.AnnAssign)) and any(isinstance(t, ast.Name) and t.id == setvar for t in (n.targets if isinstance(n, ast.Assign) else [n.target]))]
    if len(defs) != 1:
        return False
    d = defs[0]
    binder = next((a for a in S.ancestors(ev.call) if isinstance(a, (ast.For, ast.AsyncFor)) and isinstance(a.target, ast.Name) and a.target.id == kvar), None)
    if binder is not None:
        return any(a is binder for a in S.ancestors(d))
    it = next((i for i in m.neighbour_iters if i.gen is None and S._inside_body(ev.call, i.node)), None)
    if it is None or not S._inside_body(d, it.node):
        return False
    stores = [x for x in ast.walk(it.node) if isinstance(x, ast.Name) and x.id == kvar and isinstance(x.ctx, ast.Store)]
    if len(stores) != 1:
        return False
    cfg = cfg_of(m.fi)
    kst = stmt_of(stores[0])
    # the names the set is computed from (`module_filters = [subject, o]`) are bound after `o` as well
    chain = [d]
    single = S._single_assignments(fn)
    for x in ast.walk(d.value):
        if isinstance(x, ast.Name) and x.id in single:
            chain.append(stmt_of(single[x.id]))
    return all(cfg.dominates(kst, c) for c in chain if c is not None) and cfg.dominates(d, stmt_of(ev.call))


_NAME_TEST = re.compile(r"\.(startswith|endswith|removeprefix|removesuffix|rpartition|partition|rsplit|split|find|rfind|count)\(")


def _implies_for_some(premise: Formula, conclusion: Formula, free: list[str]) -> bool:
    """premise -> (exists free atoms. conclusion), by enumeration."""
    from core.guards import assignments, evaluate

    bound = sorted((atoms_of(premise) | atoms_of(conclusion)) - set(free))
    for env in assignments(bound):
        if not evaluate(premise, env):  # no free atom occurs in the premise
            continue
        if not any(evaluate(conclusion, {**env, **e2}) for e2 in assignments(free)):
            return False
    return True


def _set_mutations(m: S.SearchModel, name: str) -> list[tuple[ast.AST, str, list[ast.AST]]]:
    """[(node, grow | shrink | other, element expressions)] for every statement of the view that changes the node set `name`."""
    out: list[tuple[ast.AST, str, list[ast.AST]]] = []
    for n in ast.walk(m.fi.node):
        if isinstance(n, ast.Call) and isinstance(n.func, ast.Attribute) and isinstance(n.func.value, ast.Name) and n.func.value.id == name:
            a = n.func.attr
            if a in ("add", "update", "append", "extend"):
                out.append((n, "grow", list(n.args)))
            elif a in ("remove", "discard", "difference_update"):
                out.append((n, "shrink", list(n.args)))
            elif a in ("clear", "pop", "intersection_update", "symmetric_difference_update"):
                out.append((n, "other", list(n.args)))
        elif isinstance(n, ast.AugAssign) and isinstance(n.target, ast.Name) and n.target.id == name:
            out.append((n, "grow" if isinstance(n.op, (ast.BitOr, ast.Add)) else "shrink" if isinstance(n.op, ast.Sub) else "other", [n.value]))
        elif isinstance(n, ast.Assign) and any(isinstance(t, ast.Name) and t.id == name for t in n.targets):
            out.append((n, "bind", [n.value]))
        elif isinstance(n, ast.AnnAssign) and isinstance(n.target, ast.Name) and n.target.id == name and n.value is not None:
            out.append((n, "bind", [n.value]))
    return out


def start_filters(m: S.SearchModel, subj: str, own: list[str]) -> list[tuple[ast.AST, str, str]]:
    """[(condition, ok | violation | undecided, detail)] for the conditions of a filtered copy of the subject's sub-tree the worklist
    starts from (`[n for n in own if c]`): every node of the sub-tree (but the parent identifier of a 'sub modules of' subject) must
    pass.  A node set computed from the filters' identifiers that takes nodes out is positive evidence of a violation."""
    out: list[tuple[ast.AST, str, str]] = []
    for cond, var in m.worklist_filters:
        flag_ = atom(f"bool({subj}.{S.PARENT_FLAG})")
        is_parent_ = S.to_formula(ast.Compare(left=ast.Name(id=var, ctx=ast.Load()), ops=[ast.Eq()], comparators=[ast.Attribute(value=ast.Name(id=subj, ctx=ast.Load()), attr=S.NODE_ATTR, ctx=ast.Load())]), m.subst)
        premise_ = f_and([f_or([atom(f"{var} in {o}") for o in own]), f_not(f_and([flag_, is_parent_]))] + [f_not(atom(f"{var} in {v}")) for v in m.visited_sets])
        kept = S.conds_formula([(cond, True)], m.subst)
        try:
            ok_ = _implies_for_some(premise_, kept, sorted(a for a in atoms_of(kept) if a not in atoms_of(premise_) and var not in a))
        except AnalysisError:
            ok_ = False
        if ok_:
            out.append((cond, "ok", f"the filter `{norm(cond)}` of the start list keeps every node of `{own[0]}` (but the parent identifier of a 'sub modules of' subject)"))
            continue
        sets = [a[len(var) + 4:] for a in sorted(atoms_of(kept)) if a.startswith(f"{var} in ")]
        evidence = next((x for x in sets if x.isidentifier() and x not in _known_sets(m) | set(own) and (prov := S.provenance(m, ast.Name(id=x, ctx=ast.Load()))) and all(l_ in ("const", "derived") or l_.startswith("filter:") for l_ in prov)), None)
        evidence = evidence or next((x for x in sets if x in m.parent_id_sets), None)
        if evidence is not None:
            out.append((cond, "violation", f"the worklist starts from the nodes of `{own[0]}` that satisfy `{norm(cond)}`: nodes of the subject's own sub-tree that are in `{evidence}` (computed from the identifiers of the rule's modules) are never examined, so their imports are never reported"))
        else:
            out.append((cond, "undecided", f"the worklist starts from the nodes of `{own[0]}` that satisfy `{norm(cond)}`, and the model cannot show that every node of the subject's sub-tree does"))
    return out


def _own_subtree_expanded(repo: Repo, res: Result, m: S.SearchModel, subj: str, own: list[str], exc: list[str]) -> int:
    """A named module stands for itself and all its descendants - as a *subject* too: every node of the subject's own sub-tree is
    expanded (its imports are looked at), whatever else it belongs to.  The test that keeps excluded objects from being expanded
    must therefore not apply to a node of the subject's sub-tree (`pkg should not import anything except pkg.child`: the imports of
    pkg.child are still imports of pkg).  Only the parent identifier of a 'sub modules of' subject is left out.

    Decided on the conditions under which the neighbour lookup of a popped node is reached: with `node in own`, not yet visited
    and not (subject is 'sub modules of' and node is its identifier) the lookup must be reached."""
    fi = m.fi
    n = 0
    single = S._single_assignments(fi.node)
    # a start list that is a filtered copy of the sub-tree must keep every node that has to be expanded
    for cond, status, detail in start_filters(m, subj, own):
        n += 1
        key_ = f"{fi.relpath}::{getattr(fi, 'shown', fi.qualname)}::the start list keeps every node of the subject's sub-tree"
        if status == "undecided":
            res.undecide("C01.S", key_, detail, where(fi, cond))
        else:
            res.add("C01.S", key_, status == "ok", detail, where(fi, cond), kind="dominance")
    for c in (m.neighbour_calls or [m.neighbour_call]):
        g = m.guard_of(c)
        pop = m.popped
        mentions = re.compile(rf"(?<![\w.]){re.escape(pop)}(?![\w])")
        flag = atom(f"bool({subj}.{S.PARENT_FLAG})")
        is_parent = S.to_formula(ast.Compare(left=ast.Name(id=pop, ctx=ast.Load()), ops=[ast.Eq()], comparators=[ast.Attribute(value=ast.Name(id=subj, ctx=ast.Load()), attr=S.NODE_ATTR, ctx=ast.Load())]), m.subst)
        premise = f_and([f_or([atom(f"{pop} in {o}") for o in own]), f_not(f_and([flag, is_parent]))] + [f_not(atom(f"{pop} in {v}")) for v in m.visited_sets])
        # conditions on the edge to a neighbour (a filter of the comprehension the lookup sits in) are not conditions on the popped node
        nvars = [re.compile(rf"(?<![\w.]){re.escape(i.var)}(?![\w])") for i in m.neighbour_iters if i.var != pop]
        free = sorted(a for a in atoms_of(g) if a not in atoms_of(premise) and (not mentions.search(a) or any(r.search(a) for r in nvars)))
        n += 1
        key = f"{fi.relpath}::{getattr(fi, 'shown', fi.qualname)}::every node of the subject's sub-tree is expanded"
        try:
            ok = _implies_for_some(premise, g, free)
        except AnalysisError as err:
            res.undecide("C01.S", key, f"the condition under which `{norm(c)}` is reached is too large to enumerate ({err})", where(fi, c))
            continue
        if ok:
            res.add("C01.S", key, True, f"a popped node of `{own[0]}` always reaches `{norm(c)}` (only the parent identifier of a 'sub modules of' subject is left out)", where(fi, c), kind="dominance")
            continue
        # which test keeps an own node from being expanded
        bad = []
        for x in exc:
            if f"{pop} in {x}" not in atoms_of(g):
                continue
            try:  # the lookup is reached for every own node outside x: membership in x is what keeps own nodes from being expanded
                if _implies_for_some(f_and([premise, f_not(atom(f"{pop} in {x}"))]), g, free):
                    bad.append(x)
            except AnalysisError:
                pass
        other = sorted(a for a in atoms_of(g) if mentions.search(a) and a not in atoms_of(premise) and not any(a == f"{pop} in {x}" for x in exc))
        if bad:
            test = next((t for t in ast.walk(m.loop) if isinstance(t, ast.Compare) and len(t.ops) == 1 and isinstance(t.ops[0], (ast.In, ast.NotIn)) and norm(t.left) == pop and isinstance(S.strip(t.comparators[0]), ast.Name) and (S.strip(t.comparators[0]).id == bad[0] or bad[0] in {x.id for x in ast.walk(single.get(S.strip(t.comparators[0]).id, ast.Constant(value=None))) if isinstance(x, ast.Name)})), None)
            st = stmt_of(test) if test is not None else stmt_of(c)
            res.add(
                "C01.S", key, False,
                f"`{norm(st)[:80]}` also skips nodes of the subject's own sub-tree `{own[0]}`: a module of the subject that lies inside an excepted object (subject `pkg`, object `pkg.child`; a regex that matches a package and its children) is never expanded, "
                f"so its imports of something else are never reported (`{norm(c)}` is only reached under `{pop} not in {bad[0]}`; the skip must spare `{own[0]}`, e.g. skip `{bad[0]} - {own[0]}`)",
                where(fi, st), kind="dominance",
            )
        else:
            res.undecide("C01.S", key, f"whether a popped node of `{own[0]}` reaches `{norm(c)}` also depends on {other or sorted(atoms_of(g))}, which the model cannot relate to the subject's sub-tree or the excluded objects", where(fi, c))
    return n


def _exempt_sets_exact(repo: Repo, res: Result, m: S.SearchModel, subj: str, own: list[str], exc: list[str], rec: list) -> int:
    """'Something else' is everything outside the subject and the named objects - and nothing but that: the node sets whose
    members are not reported hold the subject's sub-tree / the objects' sub-trees (up to the documented adjustment for
    'sub modules of' filters) and nothing else, and an import edge to a node outside them is recorded.

    [exempt set]  every statement that changes one of the two sets is the sub-tree lookup itself, the adjustment by the
                  identifier of a 'sub modules of' filter - or it puts in / takes out other nodes (VIOLATION when those are computed
                  from module names alone, e.g. the ancestors of the subject; undecided when the model cannot see where they come from)
    [nothing else exempt]  under (import edge, neighbour not in the subject's sub-tree, neighbour not in the objects) the pair is recorded"""
    fi = m.fi
    n = 0
    single = S._single_assignments(fi.node)
    for name in own + exc:
        what_for = f"the subject's sub-tree {S.SUBMODULES}(graph, {subj})" if name in own else "the sub-trees of the named objects"
        for node, kind, elts in _set_mutations(m, name):
            st = stmt_of(node)
            if any((stmt_of(site.call) is st or any(f is st for f in site.fills)) and site.target == name for site in m.subtree_sites):
                # the sub-tree lookup that fills the set - unless the same statement puts more in / takes something out
                extra_ops = [x for e in elts for site in m.subtree_sites if kind == "bind" and S._is_base_of(site.call, e) for x in S._addends(e, site.call) + S._subtrahends(e) if not S._is_empty_collection(x)]
                if not extra_ops:
                    continue
            if kind == "bind" and all(S._is_empty_collection(e) for e in elts):
                continue
            ops = [op for op in m.set_ops if op.node is node]
            if ops and all(op.what.endswith("." + S.NODE_ATTR) for op in ops):
                continue  # judged as [sub-tree adjustment]
            if kind == "bind":
                # a set computed from the sub-tree set itself (`S = S - E`, `S = get_all_submodules_of(..) - E`): what is taken out is E
                based = any(isinstance(x, ast.Name) and x.id == name for e in elts for x in ast.walk(S.strip(e))) or any(S._is_base_of(site.call, e) for site in m.subtree_sites for e in elts)
                subs = [x for e in elts for x in S._subtrahends(e) if not S._is_empty_collection(x)]
                adds = [x for e in elts for site in m.subtree_sites if S._is_base_of(site.call, e) for x in S._addends(e, site.call) if not S._is_empty_collection(x)]
                if based and not subs and not adds:
                    continue
                if based and adds:
                    kind, elts = "grow", adds  # `S = get_all_submodules_of(..) | E`
                elif based:
                    kind, elts = "shrink", subs
            n += 1
            key = repo.key(fi, st) + " [exempt set]"
            prov: set[str] = set()
            for e in elts:
                prov |= S.provenance(m, e)
            verb = {"grow": "puts nodes into", "shrink": "takes nodes out of"}.get(kind, "changes")
            if kind in ("grow", "shrink") and S.names_only(prov):
                effect = "imports of these modules are no longer reported as 'something else'" if kind == "grow" else ("imports that stay inside the subject are reported as 'something else'" if name in own else "imports of a named object are reported as 'something else'")
                res.add(
                    "C01.S", key, False,
                    f"`{norm(node)}` {verb} `{name}`, the set holding {what_for}, nodes that are computed from module names alone ({', '.join(sorted(prov))}) and not looked up as sub modules in the graph: "
                    f"{effect} (only imports that stay inside the subject and imports of the named objects are exempt; an ancestor or a sibling of the subject is something else)",
                    where(fi, node), kind="dominance",
                )
            elif kind == "grow" and name in own and m.direction == "succ" and prov and prov <= {f"filter:{subj}", "const"} and f"filter:{subj}" in prov:
                n -= 1  # the subject's own node, as it is: a member of its sub-tree anyway (the forward search never takes it out)
            elif kind in ("grow", "shrink") and prov == {"subtree"} and name in own and all(site.param == subj for site in m.subtree_sites if any(site.call is x for e in elts for x in ast.walk(e))):
                n -= 1  # the subject's own sub-tree once more
            else:
                res.undecide("C01.S", key, f"`{norm(node)}` {verb} `{name}`, the set holding {what_for}, and the model cannot tell which nodes ({', '.join(sorted(prov)) or 'no source found'})", where(fi, node))
    # converse of [something else]: nothing but the two sets keeps an import edge from being recorded
    for var in dict.fromkeys(i.var for i in m.neighbour_iters):
        its = [i for i in m.neighbour_iters if i.var == var]
        evs = [e for e in rec if e.nvar == var]
        if not evs:
            continue
        it = its[0]
        reaches = []
        for i_ in its:
            head = i_.node if i_.gen is None else i_.node.generators[i_.gen].iter
            reaches.append(m.guard_of(head, i_.extra) if i_.gen is None else S.conds_formula(S.all_conds(fi, head) + list(i_.extra), m.subst))
        reach = f_or(reaches)
        H = m.hier(it.var)
        outside = f_and([reach, f_not(H)] + [f_not(atom(f"{it.var} in {x}")) for x in own + exc])
        recorded = f_or([e.guard for e in evs])
        n += 1
        key = repo.key(fi, stmt_of(evs[0].call)) + " [nothing else exempt]"
        known = atoms_of(outside)
        # the question is which *neighbours* are exempt: conditions that do not mention the neighbour (an early return when nothing was
        # collected, a flag of the subject) are left open
        mentions = re.compile(rf"(?<![\w.]){re.escape(it.var)}(?![\w])")
        free = sorted(a for a in atoms_of(recorded) if a not in known and not mentions.search(a))
        try:
            holds = _implies_for_some(outside, recorded, free)
        except AnalysisError as err:
            res.undecide("C01.S", key, f"the condition under which a pair is recorded is too large to enumerate ({err})", where(fi, evs[0].call))
            continue
        if holds:
            res.add("C01.S", key, True, "every import edge that leaves the subject and does not end in a named object is recorded", where(fi, evs[0].call), kind="dominance")
            continue
        extra = sorted(a for a in atoms_of(recorded) if a not in known and a not in free)
        sets = [a[len(it.var) + 4:] for a in extra if a.startswith(f"{it.var} in ")]
        culprit = next((x for x in sets if x.isidentifier() and x not in m.visited_sets and S.names_only(S.provenance(m, ast.Name(id=x, ctx=ast.Load())))), None)
        name_test = next((a for a in extra if _NAME_TEST.search(a)), None)
        if culprit is None and name_test is not None:
            res.add(
                "C01.S", key, False,
                f"whether an import edge to a node outside the subject's sub-tree `{own[0]}` and outside the objects `{exc[0]}` is recorded also depends on the name test `{name_test}` on the other end: "
                f"modules are exempted from 'something else' by how they are called, not by being inside the subject or a named object",
                where(fi, evs[0].call), kind="dominance",
            )
        elif culprit is not None:
            res.add(
                "C01.S", key, False,
                f"an import edge to a node outside the subject's sub-tree `{own[0]}` and outside the objects `{exc[0]}` is still not recorded when the node is in `{culprit}`, a set computed from module names alone: "
                f"more than the subject and the named objects is exempt from 'something else'",
                where(fi, evs[0].call), kind="dominance",
            )
        else:
            res.undecide("C01.S", key, f"whether an import edge leaving the subject is recorded also depends on {extra or [e.guard_text for e in evs]}, which the model cannot relate to the subject's sub-tree or the named objects", where(fi, evs[0].call))
    return n


def run_lookup(repo: Repo, res: Result, rule_id: str = "C13.R6") -> int:
    """C13.R6 (search part): every subject and every object named in a query reaches a raising graph lookup on every path.
    Returns the number of obligations added (for the caller's floor)."""
    n = 0
    for f in S.lookup_facts(repo):
        fi = f.model.fi
        n += 1
        res.add(rule_id, f"{fi.relpath}::{getattr(fi, 'shown', fi.qualname)}::lookup of {f.param}", f.ok, f.detail, where(fi, fi.node), kind="dominance")
    return n


def run_closure(repo: Repo, res: Result, rule_id: str = "C03.R1") -> int:
    """C03.R1 worklist closure of the 'something else' searches, on the model's events: every push stays inside the subject's
    sub-tree or the excluded objects, the worklist starts from the subject's sub-tree, excluded nodes are not expanded.
    Returns the number of obligations added."""
    n = 0
    for m in S.models(repo):
        if m.role != "other":
            continue
        fi = m.fi
        shown = getattr(fi, "shown", fi.qualname)
        subj = m.subject_param or (fi.param_names[1] if m.direction == "succ" else fi.param_names[2])
        own = [v for v, p in m.submodule_sets.items() if p == subj]
        exc = [v for v, p in m.accumulated_sets.items() if p != subj]
        if not own or not exc:
            res.undecide(rule_id, repo.key(fi, m.loop), f"the subject's own sub-tree / the accumulated sub-trees of the objects are not recognised (own: {own}, excluded: {exc})", where(fi, m.loop))
            continue
        pushes = [e for e in m.events if e.kind == "push"]
        for e in pushes:
            n += 1
            goal = f_or([atom(f"{e.what} in {s}") for s in own + exc])
            ok = implies(e.guard, goal)
            unresolved = [] if ok else unresolved_subtree_sets(m, e.guard, [e.what])
            if unresolved:
                res.undecide(rule_id, repo.key(fi, stmt_of(e.call)) + " [push stays inside subject or excluded objects]", f"`{e.what}` is pushed under `{e.guard_text}`: `{unresolved[0]}` is computed from sub-tree lookups in a way the model cannot relate to `{own[0]}` / `{exc[0]}`", where(fi, e.call))
                continue
            res.add(
                rule_id,
                repo.key(fi, stmt_of(e.call)) + " [push stays inside subject or excluded objects]",
                ok,
                "pushed node is inside the subject's subtree or an excluded object (skipped when popped)" if ok else f"`{e.what}` is pushed under `{e.guard_text}`, which does not imply `{e.what} in {own[0]} or {e.what} in {exc[0]}`: modules unrelated to the rule's subject are expanded and their imports reported",
                where(fi, e.call),
                kind="dominance",
            )
        n += 1
        ok = bool(m.worklist_sources) and all(s in own for s in m.worklist_sources)
        anchor = m.worklist_inits[0] if m.worklist_inits else m.loop
        bad_filter = next((f_ for f_ in start_filters(m, subj, own) if f_[1] != "ok"), None) if ok else None
        if bad_filter is not None and bad_filter[1] == "undecided":
            res.undecide(rule_id, repo.key(fi, anchor) + " [worklist start]", bad_filter[2], where(fi, anchor))
        elif bad_filter is not None:
            res.add(rule_id, repo.key(fi, anchor) + " [worklist start]", False, bad_filter[2], where(fi, anchor), kind="structural")
        elif not ok and helper_object_sources(fi, m.worklist_sources):
            res.undecide(rule_id, repo.key(fi, anchor) + " [worklist start]", f"the worklist is owned by a helper object `{helper_object_sources(fi, m.worklist_sources)[0]}` of a class defined in this module; the search model does not read that class, so where the traversal starts is not decided", where(fi, anchor))
        else:
            res.add(rule_id, repo.key(fi, anchor) + " [worklist start]", ok, f"worklist starts from {S.SUBMODULES}(graph, {subj})" if ok else f"worklist starts from {m.worklist_sources}, not from the subject's subtree `{own[0]}`", where(fi, anchor), kind="structural")
        n += 1
        if pushes:
            in_own = [atom(f"{m.popped} in {o}") for o in own]
            ok = all(any(implies(m.guard_of(c), f_or([f_not(atom(f"{m.popped} in {x}")), *in_own])) for x in exc) for c in (m.neighbour_calls or [m.neighbour_call]))
            unresolved = [] if ok else [x for c in (m.neighbour_calls or [m.neighbour_call]) for x in unresolved_subtree_sets(m, m.guard_of(c), [m.popped])]
            if unresolved:
                res.undecide(rule_id, f"{fi.relpath}::{shown}::excluded nodes are not expanded", f"the expansion of `{m.popped}` is guarded by a test of `{unresolved[0]}`, which is computed from sub-tree lookups in a way the model cannot relate to `{exc[0]}`", where(fi, m.neighbour_call))
                continue
            res.add(rule_id, f"{fi.relpath}::{shown}::excluded nodes are not expanded", ok, "popped nodes in the excluded set are skipped (unless they belong to the subject itself)" if ok else f"a popped node in `{exc[0]}` is expanded: imports of the rule's objects are reported as the subject's", where(fi, m.neighbour_call), kind="dominance")
        else:
            res.add(rule_id, f"{fi.relpath}::{shown}::no push", True, "the search never extends its worklist beyond the subject's subtree", where(fi, fi.node), nontrivial=False)
    return n
