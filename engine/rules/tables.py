"""Decision-table extraction shared by C01, C12 and C13: verb/except -> questions asked -> buckets -> modes.

How the tables are obtained (since the re-engineering against behaviour-preserving refactorings):

  * `run_scenario(repo, Scenario(verb, except, import_))` builds a `Rule()` with the abstract interpreter of rules/absint.py, sets the
    public `RuleConfiguration` fields to one point of the finite configuration space (flags concrete; subjects, objects and the
    evaluable symbolic) and interprets the public entry point `Rule.assert_applies(evaluable)` down to - but not into - the graph
    layer.  The `Run` holds the events: graph questions with their arguments, requirement objects built, AssertionError raises,
    the matcher / detector / violations objects (all found by role).
  * `demand_run` re-asks the detector of that run with both query results available and classifies every violation bucket from its
    add-events (`classify_bucket`): *present* (elements are realisations of a query result, unfiltered = per-pair) or *absent* (keys
    whose own list of realisations is empty = per-key; anything else = joint).
  * `Inliner`, `issuing_conditions`, `bucket_wiring`, `data_sources` keep their old signatures (C03 / C05 / C13 import them) but
    read their answers off those runs; `method_mode` / `classify_helper` at the end of the file are the old syntactic classification,
    kept unchanged for C05 (layer detector).

No private name of the pipeline is used as an anchor: public API only (`Rule`, `assert_applies`, the fluent vocabulary, the fields of
`RuleConfiguration`, the three query methods of `EvaluableArchitecture`, `get_rule_violation`), everything else by role.
"""

from __future__ import annotations

import ast
import re
from dataclasses import dataclass

from core.guards import FALSE, TRUE, Formula, atom, atoms_of, conds_formula, evaluate, f_and, f_not, f_or, show, to_formula
from core.loader import AnalysisError, ClassInfo, FuncInfo, Repo, calls_in, norm, own_nodes, parent
from core.types import Types, members

from .common import conds, dotted, stmt_of, types_of, where

RULE = "pytestarch.query_language.rule"
MATCHER = "pytestarch.rule_assessment.rule_check.rule_matcher"
BEHAVIOR = "pytestarch.rule_assessment.rule_check.behavior_requirement"
MODREQ = "pytestarch.rule_assessment.rule_check.module_requirement"
DETECTOR = "pytestarch.rule_assessment.rule_check.rule_violation_detector"
LAYER_DETECTOR = "pytestarch.rule_assessment.rule_check.layer_rule_violation_detector"
VIOLATIONS = "pytestarch.rule_assessment.rule_check.rule_violations"
SEARCHES = "pytestarch.eval_structure.breadth_first_searches"
EVAL_GRAPH = "pytestarch.eval_structure.evaluable_graph"

VERBS = ("should", "should_only", "should_not")
ATOMS = ["should", "should_only", "should_not", "except_present"]
LEGAL_POINTS = [(v, e) for v in VERBS for e in (False, True)]

EXPLICIT_QUERY = "get_dependencies"
OTHER_QUERIES = (
    "any_dependencies_from_dependents_to_modules_other_than_dependent_upons",
    "any_other_dependencies_on_dependent_upons_than_from_dependents",
)

# frozen copy of the "simplified" Operation Markers block of LANGUAGE_DEFINTION.md (cross-checked against the file)
FROZEN_MARKERS = {
    "any": {("should", True), ("should_only", True)},
    "edge": {("should", False), ("should_only", False)},
    "neg edge": {("should_not", False), ("should_only", True)},
    "neg any": {("should_not", True), ("should_only", False)},
}
# frozen copy of the Semantics block: (verb, except) -> {(source, mode)}
FROZEN_SEMANTICS = {
    ("should", False): {("explicit", "absent")},
    ("should_only", False): {("explicit", "absent"), ("other", "present")},
    ("should_not", False): {("explicit", "present")},
    ("should", True): {("other", "absent")},
    ("should_only", True): {("other", "absent"), ("explicit", "present")},
    ("should_not", True): {("other", "present")},
}


def point_env(verb: str, exc: bool) -> dict[str, bool]:
    return {"should": verb == "should", "should_only": verb == "should_only", "should_not": verb == "should_not", "except_present": exc}


def point_name(verb: str, exc: bool) -> str:
    return verb.replace("_", " ") + (" except" if exc else "")


# --------------------------------------------------------------------------- the document oracle


def _phrase(p: str) -> tuple[str, bool] | None:
    p = " ".join(p.strip().lower().split())
    exc = p.endswith(" except")
    if exc:
        p = p[: -len(" except")]
    verb = {"should": "should", "should only": "should_only", "should not": "should_not"}.get(p)
    return (verb, exc) if verb else None


def parse_language_doc(repo: Repo) -> tuple[dict, dict]:
    path = repo.src / "query_language" / "LANGUAGE_DEFINTION.md"
    if not path.exists():
        raise AnalysisError("LANGUAGE_DEFINTION.md (the oracle of C01/C12) not found")
    text = path.read_text(encoding="utf-8")
    m = re.search(r"^simplified:\s*\n((?:[ \t]+\S.*\n)+)", text, re.M)
    if not m:
        raise AnalysisError("LANGUAGE_DEFINTION.md: 'simplified' operation marker block not found")
    markers: dict[str, set] = {}
    for line in m.group(1).splitlines():
        mm = re.match(r"^\s+(any|edge|neg edge|neg any)\s{2,}(.*)$", line)
        if not mm:
            continue
        pts = {_phrase(p) for p in mm.group(2).split(",")}
        if None in pts:
            raise AnalysisError(f"LANGUAGE_DEFINTION.md: cannot read marker line {line!r}")
        markers[mm.group(1)] = pts
    sem: dict[tuple[str, bool], set] = {}
    sm = re.search(r"^## Semantics\s*\n(.*?)(?:\n\s*\n\s*\nM1 should be_imported_from|\Z)", text, re.S | re.M)
    if not sm:
        raise AnalysisError("LANGUAGE_DEFINTION.md: Semantics block not found")
    prev_first = None
    for line in sm.group(1).splitlines():
        lm = re.match(r"^M1 (should(?: only| not)?) import( except)? M2\s*->\s*(.*)$", line.strip())
        if not lm:
            continue
        verb = lm.group(1).replace(" ", "_")
        exc = bool(lm.group(2))
        items = []
        depth = 0
        cur = ""
        for ch in lm.group(3):
            if ch == "(":
                depth += 1
            if ch == ")":
                depth -= 1
            if ch == "," and depth == 0:
                items.append(cur.strip())
                cur = ""
            else:
                cur += ch
        items.append(cur.strip())
        out = set()
        for i, it in enumerate(items):
            if it == '-"-':
                it = prev_first
            if it.startswith("neg(any edge"):
                out.add(("other", "present"))
            elif it.startswith("neg(edge"):
                out.add(("explicit", "present"))
            elif it.startswith("any edge"):
                out.add(("other", "absent"))
            elif it.startswith("edge"):
                out.add(("explicit", "absent"))
            else:
                raise AnalysisError(f"LANGUAGE_DEFINTION.md: cannot read semantics item {it!r}")
            if i == 0 and items[0] != '-"-':
                prev_first = items[0]
        sem[(verb, exc)] = out
    if markers != FROZEN_MARKERS or sem != FROZEN_SEMANTICS:
        raise AnalysisError("LANGUAGE_DEFINTION.md no longer agrees with the checker's frozen copy of the documented semantics (the oracle moved): " f"markers={markers} semantics={sem}")
    return markers, sem


# --------------------------------------------------------------------------- the pipeline, interpreted (rules/absint.py)

from .absint import Alt, BoolF, ClsV, Coll, Const, DictV, Event, Inst, Interp, Sym, Tup, assign_atoms, roots_of, show_term, subterms, tainted, term_of  # noqa: E402

PIPE_MODULES = (RULE, MATCHER, BEHAVIOR, MODREQ, DETECTOR, VIOLATIONS)
QUERIES = (EXPLICIT_QUERY, *OTHER_QUERIES)
CONFIG_FIELDS = ("modules_to_check", "modules_to_check_against", "should", "should_only", "should_not", "except_present", "import_", "rule_object_anything")
EVALUABLE_CLS = "pytestarch.eval_structure.evaluable_architecture.EvaluableArchitecture"


@dataclass
class Scenario:
    verb: str
    exc: bool
    import_: bool
    anything: bool = False
    symbolic_verbs: bool = False  # alias scenarios: the other verb flags stay symbolic (they must survive the rewrite untouched)

    @property
    def name(self) -> str:
        if self.anything:
            return f"{self.verb.replace('_', ' ')} {'import' if self.import_ else 'be imported by'} anything"
        return f"{point_name(self.verb, self.exc)} ({'import' if self.import_ else 'be imported by'})"


@dataclass
class Run:
    sc: Scenario
    interp: Interp
    rule: Inst
    config0: Inst
    config_field: str
    queries: list
    verdicts: list
    other_raises: list
    violations: Inst | None
    matcher: Inst | None
    detector: Inst | None
    behavior_new: list  # constructor events of the behaviour requirement
    modreq_new: list  # constructor events of the module requirement (in order: as specified by the rule, converted)
    result: object = None


def _assume(atom_text: str) -> bool | None:
    return None


def simple_helper(f: FuncInfo) -> bool:
    """A small pure helper (if / return / local assignments only, no loops, no handlers): predicates and converters such as
    `is_sub_module_of(a, b)` are followed wherever they live, so that moving an expression into a shared helper changes nothing."""
    if isinstance(f.node, ast.Lambda):
        return True
    if f.is_abstract or f.name.startswith("__"):
        return False
    n_stmts = 0
    for n in own_nodes(f.node):
        if isinstance(n, (ast.For, ast.AsyncFor, ast.While, ast.Try, ast.With, ast.AsyncWith, ast.Match, ast.Yield, ast.YieldFrom, ast.Await, ast.Global, ast.Nonlocal, ast.Delete, ast.AugAssign, ast.ListComp, ast.SetComp, ast.DictComp, ast.GeneratorExp)):
            return False
        if isinstance(n, ast.Assign) and not all(isinstance(t, ast.Name) for t in n.targets):
            return False
        if isinstance(n, ast.stmt):
            n_stmts += 1
    return n_stmts <= 12


# The pipeline is followed through every repo function *except* across these boundaries: the graph layer (whose calls are the
# events the rules are about), the scanning front end, and the rendering of messages / diagrams (never on a verdict's path).
OPAQUE_PREFIXES = (
    "pytestarch.eval_structure.", "pytestarch.eval_structure_generation.", "pytestarch.rule_assessment.error_message.",
    "pytestarch.diagram_extension.", "pytestarch.pytestarch",
)


def _opaque_module(name: str) -> bool:
    return any(name.startswith(p) or name == p.rstrip(".") for p in OPAQUE_PREFIXES)


def descend_pipeline(f: FuncInfo) -> bool:
    top = f
    while top.outer is not None:
        top = top.outer
    if not _opaque_module(top.module.name):
        return True
    return f.outer is None and (f.cls is None or f.is_staticmethod) and simple_helper(f)


def _scenario_interp(repo: Repo) -> Interp:
    return Interp(repo, descend_pipeline, assume={"bool(S)": True, "bool(O)": True, "bool(evaluable)": True})


def _rule_class(repo: Repo) -> ClassInfo:
    return repo.cls(RULE, "Rule")


def _find_config(rule: Inst) -> tuple[str, Inst]:
    """The configuration object of a Rule: the dataclass instance among its fields that carries the verb flags."""
    for name, v in rule.fields.items():
        if isinstance(v, Inst) and {"should", "should_only", "should_not", "except_present", "import_"} <= set(v.fields):
            return name, v
    raise AnalysisError("Rule() builds no configuration object with the fields should / should_only / should_not / except_present / import_")


def run_scenario(repo: Repo, sc: Scenario) -> Run:
    cache = repo.__dict__.setdefault("_c01_runs", {})
    key = (sc.verb, sc.exc, sc.import_, sc.anything, sc.symbolic_verbs)
    if key in cache:
        return cache[key]
    I = _scenario_interp(repo)
    rule = I.instantiate(_rule_class(repo), [], {}, None, None)
    if not isinstance(rule, Inst):
        raise AnalysisError("Rule() could not be instantiated by the interpreter")
    cfg_name, cfg = _find_config(rule)
    for v in VERBS:
        if sc.symbolic_verbs and v != sc.verb:
            cfg.fields[v] = BoolF(atom(f"cfg.{v}"))
        else:
            cfg.fields[v] = Const(v == sc.verb)
    cfg.fields["except_present"] = BoolF(atom("cfg.except_present")) if sc.symbolic_verbs else Const(sc.exc)
    cfg.fields["import_"] = Const(sc.import_)
    if "rule_object_anything" in cfg.fields:
        cfg.fields["rule_object_anything"] = Const(sc.anything)
    elif sc.anything:
        raise AnalysisError("the rule configuration has no rule_object_anything flag")
    cfg.fields["modules_to_check"] = Sym(("root", "S"), "list")
    cfg.fields["modules_to_check_against"] = Const(None) if sc.anything else Sym(("root", "O"), "list")
    # collections that are derived from the (non-empty) subjects / objects only are non-empty
    orig_truth = I.truth

    def truth(v):
        if isinstance(v, Coll) and v.entries and roots_of(v) and roots_of(v) <= {"S", "O"}:
            return TRUE
        return orig_truth(v)

    I.truth = truth  # type: ignore[method-assign]
    ev = Sym(("root", "evaluable"), EVALUABLE_CLS)
    result = I.call_method(rule, "assert_applies", [ev])
    queries = [e for e in I.events if e.kind == "call" and e.name in QUERIES and e.recv is not None and roots_of(e.recv) == {"evaluable"}]
    raises = [e for e in I.events if e.kind == "raise"]
    verdicts = [e for e in raises if e.name == "AssertionError"]
    # the objects of the evaluation, found by role: the detector is the object answering `get_rule_violation`, the violations
    # object is what that call returns, the matcher is the object whose class holds the call sites of the graph questions
    detectors = [i for i in I.instances if repo.lookup_method(i.cls, "get_rule_violation") is not None]
    viols = []
    if detectors:
        grv = repo.lookup_method(detectors[-1].cls, "get_rule_violation")
        for _env, res_, _fr in I.frames_of.get(grv.fq, []):
            viols += [o for _g, o in (res_.options if isinstance(res_, Alt) else [(TRUE, res_)]) if isinstance(o, Inst)]
    if not viols:
        viol_cls = repo.modules.get(VIOLATIONS) and repo.module(VIOLATIONS).classes.get("RuleViolations")
        viols = [i for i in I.instances if i.cls is viol_cls]
    site_classes = {q.fi.cls.fq for q in queries if q.fi is not None and q.fi.cls is not None}
    matchers = [i for i in I.instances if any(c.fq in site_classes for c in repo.mro(i.cls))] or [i for i in I.instances if i.cls.module.name == MATCHER]
    beh, modreq = _requirement_events(repo, I, rule)
    run = Run(
        sc, I, rule, cfg, cfg_name, queries, verdicts, [e for e in raises if e.name != "AssertionError"],
        viols[-1] if viols else None, matchers[-1] if matchers else None, detectors[-1] if detectors else None,
        beh, modreq, result,
    )
    cache[key] = run
    return run


def run_twice(repo: Repo, sc: Scenario) -> tuple[Run, list]:
    """The same rule object evaluated a second time against another evaluable: (first run, query events of the second evaluation)."""
    cache = repo.__dict__.setdefault("_c01_twice", {})
    key = (sc.verb, sc.exc, sc.import_)
    if key in cache:
        return cache[key]
    saved = repo.__dict__.get("_c01_runs", {}).pop((sc.verb, sc.exc, sc.import_, sc.anything, sc.symbolic_verbs), None)
    run = run_scenario(repo, sc)  # a private run: its rule object is evaluated twice
    repo.__dict__["_c01_runs"].pop((sc.verb, sc.exc, sc.import_, sc.anything, sc.symbolic_verbs), None)
    if saved is not None:
        repo.__dict__["_c01_runs"][(sc.verb, sc.exc, sc.import_, sc.anything, sc.symbolic_verbs)] = saved
    I = run.interp
    n = len(I.events)
    I.path.clear()
    I.call_method(run.rule, "assert_applies", [Sym(("root", "evaluable2"), EVALUABLE_CLS)])
    second = [e for e in I.events[n:] if e.kind == "call" and e.name in QUERIES]
    cache[key] = (run, second)
    return cache[key]


def bound_args(repo: Repo, ev: Event, params: list[str] | None = None) -> list:
    """Arguments of a recorded constructor / method call in parameter order (keywords bound to their parameters)."""
    if params is None:
        target = None
        if ev.kind == "new" and isinstance(ev.result, Inst):
            target = repo.lookup_method(ev.result.cls, "__init__")
            params = target.param_names[1:] if target is not None else list(_dataclass_fields(repo, ev.result.cls))
        elif ev.callee is not None:
            params = ev.callee.param_names[1:] if ev.callee.cls is not None and not ev.callee.is_staticmethod else ev.callee.param_names
        else:
            ci = repo.classes.get(EVALUABLE_CLS)
            m = repo.lookup_method(ci, ev.name) if ci is not None else None
            params = m.param_names[1:] if m is not None else []
    out = list(ev.args)
    for p in params[len(out):]:
        if p in ev.kwargs:
            out.append(ev.kwargs[p])
        else:
            break
    return out


def _dataclass_fields(repo: Repo, ci: ClassInfo) -> list[str]:
    names: list[str] = []
    for c in reversed(repo.mro(ci)):
        for n in c.ann_attrs:
            if n not in names:
                names.append(n)
    return names


def _requirement_events(repo: Repo, I: Interp, rule: Inst) -> tuple[list, list]:
    """Constructor events of the two requirement classes, found by role among the objects the Rule class itself builds during
    assert_applies: the *behaviour* requirement is the one built from boolean flags only, the *module* requirement the one built
    from the rule's subjects / objects.  (All later constructions of the same classes are returned as well, in order.)"""
    news = [e for e in I.events if e.kind == "new" and isinstance(e.result, Inst)]
    by_rule = [e for e in news if e.fi is not None and e.fi.cls is not None and any(c.fq == e.fi.cls.fq for c in repo.mro(rule.cls))]
    beh_cls = mod_cls = None
    for e in by_rule:
        args = bound_args(repo, e)
        if not args:
            continue
        if beh_cls is None and len(args) >= 3 and all(isinstance(a, BoolF) or (isinstance(a, Const) and isinstance(a.value, bool)) for a in args):
            beh_cls = e.result.cls
        elif mod_cls is None and any(roots_of(a) & {"S", "O"} for a in args) and not {"should", "should_only", "should_not"} <= set(e.result.fields):
            mod_cls = e.result.cls
    if beh_cls is None:
        beh_cls = repo.modules.get(BEHAVIOR) and repo.module(BEHAVIOR).classes.get("BehaviorRequirement")
    if mod_cls is None:
        mod_cls = repo.modules.get(MODREQ) and repo.module(MODREQ).classes.get("ModuleRequirement")
    return [e for e in news if e.result.cls is beh_cls], [e for e in news if e.result.cls is mod_cls]


def legal_scenarios() -> list[Scenario]:
    return [Scenario(v, e, imp) for v, e in LEGAL_POINTS for imp in (True, False)]


def alias_scenarios() -> list[Scenario]:
    return [Scenario("should_not", False, imp, anything=True, symbolic_verbs=True) for imp in (True, False)]


def asked_kinds(run: Run) -> set[str]:
    return {"explicit" if q.name == EXPLICIT_QUERY else "other" for q in run.queries if q.guard != FALSE}


# --------------------------------------------------------------------------- classification of violation buckets


@dataclass
class Group:
    kind: str  # elem | key | keyobj | other
    base: tuple | None  # term of the query result the element derives from
    iter: int | None
    guard: Formula
    shapes: set
    sample: str


@dataclass
class BucketValue:
    field: str
    groups: list
    source: str | None = None  # explicit | other | mixed | None (empty)
    mode: str | None = None  # present | absent | mixed | unknown | None (empty)
    gran: str | None = None  # per-pair | filtered | per-key | joint
    detail: str = ""
    undecided: str = ""  # non-empty: the interpreter met a construct it does not model on the way to this bucket

    @property
    def empty(self) -> bool:
        return not self.groups


def _data_of(t) -> tuple | None:
    if not isinstance(t, tuple) or not t:
        return None
    if t[0] == "key" and len(t) == 3:
        return ("key", t[1], t[2])
    if t[0] == "elem" and len(t) == 3 and isinstance(t[1], tuple) and t[1] and t[1][0] == "val":
        return ("elem", t[1][1], t[1][2])
    if t[0] == "val" and len(t) == 3:
        return ("val", t[1], t[2])
    return None


def _normalise(v) -> tuple:
    """(kind, base term, iteration id, shape) of one element added to a bucket."""
    if isinstance(v, Alt):
        parts = [_normalise(o) for _g, o in v.options]
        kinds = {(p[0], p[1], p[2]) for p in parts}
        if len(kinds) == 1:
            return (*parts[0][:3], "|".join(sorted({p[3] for p in parts})))
        return ("other", None, None, show_term(term_of(v))[:120])
    t = term_of(v)
    flips = 0
    while isinstance(t, tuple) and len(t) == 2 and t[0] in ("copy", "reversed"):
        flips += t[0] == "reversed"
        t = t[1]
    d = _data_of(t)
    if d is not None and d[0] in ("key", "elem"):
        return (d[0], d[1], d[2], "swapped" if flips % 2 else "as-is")
    if t[0] == "tuple" and len(t) == 3:
        comps = t[1:]
        idx = []
        for c in comps:
            if isinstance(c, tuple) and c and c[0] == "index" and _data_of(c[1]) is not None and c[2] in (("const", "0"), ("const", "1")):
                idx.append((_data_of(c[1]), c[2][1]))
            else:
                idx.append(None)
        if idx[0] is not None and idx[1] is not None and idx[0][0] == idx[1][0] and {idx[0][1], idx[1][1]} == {"0", "1"} and idx[0][0][0] in ("key", "elem"):
            d = idx[0][0]
            return (d[0], d[1], d[2], "as-is" if idx[0][1] == "0" else "swapped")
        ds = [_data_of(c) for c in comps]
        for i in (0, 1):
            d, other = ds[i], comps[1 - i]
            if d is not None and d[0] == "key" and not any(_data_of(st) is not None and _data_of(st)[1] == d[1] for st in subterms(other)):
                return ("keyobj", d[1], d[2], "key-first" if i == 0 else "key-second")
    return ("other", None, None, show_term(t)[:120])


def _query_of(base) -> str | None:
    """Name of the graph question whose answer a data term is (a sub-term `call(<query>, evaluable, ...)`), or a positional stand-in."""
    for st in subterms(base):
        if isinstance(st, tuple) and len(st) >= 2 and st[0] == "call" and st[1] in QUERIES:
            return st[1]
        if isinstance(st, tuple) and len(st) == 2 and st[0] == "root" and str(st[1]).startswith("DATA"):
            return st[1]
    return None


def _iteration_facts(guard: Formula, base, atom_info: dict | None) -> tuple[dict, Formula]:
    """What holding an element of a symbolic iteration implies: the iterated query result is non-empty, and a collection one of
    whose add-events fired (for this very element) is non-empty.  Returns (atoms to assume, constraints)."""
    assume: dict = {}
    cons = []
    if base is not None:
        assume[f"bool({show_term(base)})"] = True
    for a in atoms_of(guard):
        info = (atom_info or {}).get(a) or {}
        if info.get("kind") == "nonempty" and info.get("witnesses"):
            cons.append(f_or([f_not(f_or(list(info["witnesses"]))), atom(a)]))
    return assume, f_and(cons)


def _expand_symbolic(value, interp):
    """A bucket that is a *symbolic* collection derived from a query result without the detector adding elements one by one
    (`set(chain.from_iterable(d.values()))`, `list(d)`, ...): one abstract pass over it gives its add-events."""
    if interp is None:
        return value
    if isinstance(value, Alt):
        opts = [(g, _expand_symbolic(o, interp)) for g, o in value.options]
        return Alt(opts)
    if isinstance(value, Sym) and value.term and value.term[0] in ("copy", "flat", "values", "keys", "items", "reversed") and _query_of(value.term) is not None:
        ents = interp.iterate(value)
        if ents is not None:
            return Coll("set", list(ents), 0)
    return value


def classify_bucket(field: str, value, source_of: dict | None = None, atom_info: dict | None = None, interp=None) -> BucketValue:
    """Judging mode of one violation bucket from the add-events the interpreter recorded for it."""
    bv = BucketValue(field, [])
    value = _expand_symbolic(value, interp)
    if isinstance(value, Alt):
        # a bucket that is one of several collections, depending on data: merge the alternatives' events
        merged = Coll("set", [], 0)
        for g, o in value.options:
            if isinstance(o, Coll):
                merged.entries += [(x, f_and([g, gx])) for x, gx in o.entries]
            else:
                bv.mode, bv.detail = "unknown", f"bucket value is not a collection: {show_term(term_of(o))[:80]}"
                bv.undecided = f"{field}: {bv.detail} (a value the interpreter holds opaquely)"
                return bv
        value = merged
    if not isinstance(value, Coll):
        if isinstance(value, Sym) and value.term[0] == "copy":
            pass
        bv.mode, bv.detail = "unknown", f"bucket value is not a collection built by the detector: {show_term(term_of(value))[:80]}"
        if not (isinstance(value, Const) and value.value is None):
            bv.undecided = f"{field}: {bv.detail} (a value the interpreter holds opaquely)"
        return bv
    groups: dict = {}
    for x, g in value.entries:
        if g == FALSE:
            continue
        kind, base, it, shape = _normalise(x)
        k = (kind, base, it)
        if k not in groups:
            groups[k] = Group(kind, base, it, g, {shape}, show_term(term_of(x))[:100])
        else:
            groups[k].guard = f_or([groups[k].guard, g])
            groups[k].shapes.add(shape)
    bv.groups = list(groups.values())
    if not bv.groups:
        return bv
    modes, sources, grans, details = set(), set(), set(), []
    for gr in bv.groups:
        t = tainted(gr.guard)
        if t:
            bv.undecided = f"{field}: the guard of an add-event depends on a construct the interpreter does not model ({', '.join(t)})"
        q = _query_of(gr.base) if gr.base is not None else None
        src = None
        if q is not None:
            src = (source_of or {}).get(q) or ("explicit" if q == EXPLICIT_QUERY else "other" if q in OTHER_QUERIES else None)
        sources.add(src)
        val_atom = f"val@{gr.iter}"
        assume, cons = _iteration_facts(gr.guard, gr.base, atom_info)
        gr.guard = assign_atoms(gr.guard, assume)
        cons = assign_atoms(cons, assume)
        if gr.kind == "elem":
            modes.add("present")
            g2 = assign_atoms(gr.guard, {val_atom: True})
            if _is_true(g2, assign_atoms(cons, {val_atom: True})):
                grans.add("per-pair")
            else:
                grans.add("filtered")
                details.append(f"realised pairs are only reported under `{show(g2)}`")
        elif gr.kind in ("key", "keyobj"):
            modes.add("absent")
            if _equiv(gr.guard, f_not(atom(val_atom)), cons):
                grans.add("per-key")
            else:
                grans.add("joint")
                details.append(f"a key is reported under `{show(gr.guard)}` instead of exactly when its own list of realisations is empty")
        else:
            modes.add("unknown")
            details.append(f"element `{gr.sample}` derives neither from the keys nor from the realisations of a query result")
            opaque = _opaque_steps(value, gr)
            if opaque and not bv.undecided:
                bv.undecided = f"{field}: an element reaches the bucket through {opaque}, which the interpreter does not follow - where it comes from is not known"
    bv.mode = next(iter(modes)) if len(modes) == 1 else "mixed"
    bv.source = next(iter(sources)) if len(sources) == 1 else "mixed"
    bv.gran = next(iter(grans)) if len(grans) == 1 else ("joint" if "joint" in grans else "filtered" if "filtered" in grans else None)
    bv.detail = "; ".join(details)
    return bv


_OPAQUE_HEADS = {"?", "global", "lib", "builtin", "getter", "lambda", "def", "unbound", "partial", "bound", "fn", "cls", "super", "missing", "missing-default"}  # (slices, next(), pop() are modelled: they select elements by position)


def _opaque_steps(value, gr: Group) -> str:
    """Names the first step in the derivation of a bucket element of unknown origin that the interpreter did not model (a call it
    did not follow, a value it holds opaquely): without it the origin cannot be told, so nothing is known *against* the code."""
    for x, g in value.entries:
        if g == FALSE:
            continue
        kind, base, it, _shape = _normalise(x)
        if (kind, base, it) != (gr.kind, gr.base, gr.iter):
            continue
        for st in subterms(term_of(x)):
            if not isinstance(st, tuple) or not st:
                continue
            if st[0] == "call" and len(st) >= 2 and st[1] not in QUERIES:
                return f"the call `{st[1]}(...)`"
            if st[0] in _OPAQUE_HEADS:
                return f"`{show_term(st)[:60]}`"
    return ""


def _is_true(f: Formula, constraints: Formula = TRUE) -> bool:
    from core.guards import implies as _imp

    try:
        return _imp(TRUE, f, constraints)
    except AnalysisError:
        return False


def _equiv(a: Formula, b: Formula, constraints: Formula = TRUE) -> bool:
    from core.guards import equivalent as _eq

    try:
        return _eq(a, b, constraints)
    except AnalysisError:
        return False


def buckets_of(viol: Inst | None, source_of: dict | None = None, atom_info: dict | None = None, interp=None) -> dict:
    if viol is None:
        return {}
    return {f: classify_bucket(f, v, source_of, atom_info, interp) for f, v in viol.fields.items()}


def active_set(buckets: dict) -> set:
    return {(b.source, b.mode) for b in buckets.values() if not b.empty}


# --------------------------------------------------------------------------- what the detector would judge, were all data available


def data_param_sources(repo: Repo) -> dict:
    """'DATA<i>' -> explicit | other: which query's answer the matcher passes as i-th argument of get_rule_violation."""
    cache = repo.__dict__.setdefault("_c01_misc", {})
    if "dps" in cache:
        return cache["dps"]
    seen: dict = {}
    grv = None
    for sc in legal_scenarios():
        run = run_scenario(repo, sc)
        if run.detector is None:
            continue
        grv = repo.lookup_method(run.detector.cls, "get_rule_violation")
        for env, _res, _fr in run.interp.frames_of.get(grv.fq, []) if grv else []:
            for i, p in enumerate(grv.param_names[1:]):
                q = _query_of(term_of(env[p]))
                if q in QUERIES:
                    seen.setdefault(f"DATA{i}", set()).add("explicit" if q == EXPLICIT_QUERY else "other")
    out = {}
    for k, v in seen.items():
        if len(v) != 1:
            raise AnalysisError(f"argument {k} of get_rule_violation derives from the answers of {sorted(v)} (expected exactly one query)")
        out[k] = next(iter(v))
    if sorted(out.values()) != ["explicit", "other"]:
        raise AnalysisError(f"the matcher does not pass the answers of the explicit and the 'other' question to get_rule_violation (found {out})")
    cache["dps"] = out
    return out


def demand_run(repo: Repo, sc: Scenario) -> dict:
    """Buckets of the detector at one configuration point when *both* query results are available (T2 / T3 / C12)."""
    cache = repo.__dict__.setdefault("_c01_demand", {})
    key = (sc.verb, sc.exc, sc.import_)
    if key in cache:
        return cache[key]
    run = run_scenario(repo, sc)
    if run.detector is None:
        # the evaluation of this (legal) rule shape never reaches a detector (it raises before): nothing is judged
        viol = repo.cls(VIOLATIONS, "RuleViolations")  # (fallback by name: no evaluated rule shows the class)
        cache[key] = {f: BucketValue(f, []) for f in viol.ann_attrs}
        return cache[key]
    grv = repo.lookup_method(run.detector.cls, "get_rule_violation")
    n = len(grv.param_names) - 1
    args = [Sym(("root", f"DATA{i}"), "dict") for i in range(n)]
    before = len(run.interp.instances)
    res = run.interp.call_method(run.detector, "get_rule_violation", args)
    inst = res if isinstance(res, Inst) else next((o for _g, o in (res.options if isinstance(res, Alt) else []) if isinstance(o, Inst)), None)
    if inst is None:
        raise AnalysisError(f"{grv.fq} does not return a violations object at '{sc.name}'")
    out = buckets_of(inst, data_param_sources(repo), run.interp.atom_info, run.interp)
    cache[key] = out
    return out


# --------------------------------------------------------------------------- compatibility layer: formulas over the configuration atoms


def _pretty(table: dict) -> Formula:
    """A small formula over ATOMS that is true exactly at the legal points listed as true in `table` ({(verb, exc): bool})."""
    lits = [atom(a) for a in ATOMS] + [f_not(atom(a)) for a in ATOMS]
    cands = [TRUE, FALSE, *lits]
    cands += [f_and([a, b]) for i, a in enumerate(lits) for b in lits[i + 1:]]
    cands += [f_or([a, b]) for i, a in enumerate(lits) for b in lits[i + 1:]]
    cands += [f_or([a, b]) for i, a in enumerate(cands[10:38]) for b in cands[10 + i + 1:38]]
    for c in cands:
        if all(evaluate(c, point_env(v, e)) == table[(v, e)] for v, e in LEGAL_POINTS):
            return c
    return f_or([f_and([atom(v), atom("except_present") if e else f_not(atom("except_present"))]) for (v, e), on in table.items() if on])


class Inliner:
    """Rewrites boolean expressions over requirement objects into formulas over the four rule-configuration atoms.

    (Kept for C03 / C05 / C13.)  Expressions are evaluated by the abstract interpreter with a behaviour requirement whose four
    constructor arguments are the atoms should / should_only / should_not / except_present: properties with early returns,
    conditional expressions, private helper properties and local aliases are all followed.
    """

    def __init__(self, repo: Repo) -> None:
        self.repo = repo
        self.T = types_of(repo)
        probe = run_scenario(repo, Scenario("should", False, True))
        self.behavior = probe.behavior_new[0].result.cls if probe.behavior_new else repo.cls(BEHAVIOR, "BehaviorRequirement")
        self._interp = Interp(repo, descend_pipeline)
        self._role_of_param = self._ctor_roles()
        init = repo.lookup_method(self.behavior, "__init__")
        params = init.param_names[1:] if init is not None else list(self.behavior.ann_attrs)
        kwargs = {p: BoolF(atom(self._role_of_param[p])) for p in params if p in self._role_of_param}
        saved = list(self._interp.events)
        self._br = self._interp.instantiate(self.behavior, [], kwargs, None, None)
        del self._interp.events[len(saved):]
        self._interp.path.clear()
        self.roles = {}
        if isinstance(self._br, Inst):
            for f, v in self._br.fields.items():
                if isinstance(v, BoolF) and v.f[0] == "atom" and v.f[1] in ATOMS:
                    self.roles[f] = v.f[1]
        if set(self.roles.values()) < set(ATOMS):
            raise AnalysisError(f"BehaviorRequirement fields do not cover the configuration atoms: {self.roles}")
        self._interp.stand_in = {self.behavior.fq: self._br}  # type: ignore[attr-defined]

    def _ctor_roles(self) -> dict[str, str]:
        """Constructor parameter of the behaviour requirement -> configuration atom, read off four evaluated rules."""
        init = self.repo.lookup_method(self.behavior, "__init__")
        params = init.param_names[1:] if init is not None else list(self.behavior.ann_attrs)
        roles: dict[str, str] = {}
        probes = [("should", False, "should"), ("should_only", False, "should_only"), ("should_not", False, "should_not")]
        vals: dict[tuple, list] = {}
        for verb, exc in [(p[0], p[1]) for p in probes] + [("should", True)]:
            run = run_scenario(self.repo, Scenario(verb, exc, True))
            if len(run.behavior_new) != 1:
                raise AnalysisError(f"expected exactly one BehaviorRequirement construction per evaluated rule, found {len(run.behavior_new)}")
            e = run.behavior_new[0]
            bound = dict(zip(params, bound_args(self.repo, e, params)))
            vals[(verb, exc)] = [bound.get(p) for p in params]
        for i, p in enumerate(params):
            col = {k: (isinstance(v[i], Const) and v[i].value is True) for k, v in vals.items()}
            for verb, _e, role in probes:
                if col[(verb, False)] and not any(col[(o, False)] for o in VERBS if o != verb):
                    roles[p] = role
            if col[("should", True)] and not col[("should", False)]:
                roles[p] = "except_present"
        if sorted(roles.values()) != sorted(ATOMS):
            raise AnalysisError(f"BehaviorRequirement is not constructed from (should, should_only, should_not, except_present): {roles}")
        return roles

    def _frame(self, fi: FuncInfo):
        from .absint import Frame

        I = self._interp
        env: dict = {}
        selfv = None
        base = getattr(fi, "base", fi)
        if base.cls is not None and base.outer is None and not base.is_staticmethod and base.param_names:
            if any(c.fq == self.behavior.fq for c in self.repo.mro(base.cls)):
                selfv = self._br
            else:
                selfv = Sym(("self",), base.cls.fq)
            env[base.param_names[0]] = selfv
        for p in base.params:
            if p.arg in env:
                continue
            t = self.T.param_type(base, p.arg)
            env[p.arg] = Sym(("param", p.arg), t[1] if t and t[0] == "cls" else None)
        fr = Frame(fi, env, selfv, None, 0)
        # single-assignment locals (copy propagation): evaluated in statement order, control flow ignored
        counts: dict[str, int] = {}
        for n in own_nodes(fi.node):
            if isinstance(n, ast.Name) and isinstance(n.ctx, ast.Store):
                counts[n.id] = counts.get(n.id, 0) + 1
        for n in own_nodes(fi.node):
            if isinstance(n, ast.Assign) and len(n.targets) == 1 and isinstance(n.targets[0], ast.Name) and counts.get(n.targets[0].id) == 1 and n.targets[0].id not in env:
                if not any(isinstance(a, (ast.For, ast.While, ast.comprehension)) for a in _ancestors(n, fi.node)):
                    saved = len(I.events)
                    env[n.targets[0].id] = I.eval(n.value, fr)
                    del I.events[saved:]
        return fr

    def formula(self, fi: FuncInfo, e: ast.expr, depth: int = 0) -> Formula:
        I = self._interp
        I.path.clear()
        saved = len(I.events)
        f = I.truth_expr(e, self._frame(fi))
        del I.events[saved:]
        return _rename_atoms(f)

    def conds(self, fi: FuncInfo, node: ast.AST) -> Formula:
        base = getattr(fi, "base", fi)
        if isinstance(node, ast.Raise) and base is fi and fi.cls is not None and any(c.fq == self.behavior.fq for c in self.repo.mro(fi.cls)) and not fi.is_staticmethod:
            # a raise inside a method of the behaviour requirement: the condition under which the interpreted method reaches it
            # (loops over tuples of checks, helper methods and locals are followed)
            I = self._interp
            I.path.clear()
            saved = len(I.events)
            I.invoke(fi, self._br, [], {}, None, None, None)
            evs = [x for x in I.events[saved:] if x.kind == "raise" and x.node is node]
            del I.events[saved:]
            I.pending.clear()
            if evs:
                return f_or([x.guard for x in evs])
        return f_and([self.formula(fi, e) if pol else f_not(self.formula(fi, e)) for e, pol in conds(fi, node)])

    def raise_formula(self, fi: FuncInfo) -> Formula:
        """Condition (over the configuration atoms) under which a method of the behaviour requirement raises; loops,
        tuples of checks and helper methods are followed by the interpreter."""
        I = self._interp
        I.path.clear()
        saved = len(I.events)
        I.invoke(fi, self._br, [], {}, None, None, None)
        evs = [x for x in I.events[saved:] if x.kind == "raise"]
        del I.events[saved:]
        I.pending.clear()
        return _rename_atoms(f_or([x.guard for x in evs]))


def _ancestors(n: ast.AST, stop: ast.AST):
    p = parent(n)
    while p is not None and p is not stop:
        yield p
        p = parent(p)


def _rename_atoms(f: Formula) -> Formula:
    return f


def restrict(f: Formula) -> Formula:
    """Formulas must only mention configuration atoms (plus `is None` data atoms which callers strip)."""
    extra = atoms_of(f) - set(ATOMS)
    if extra:
        raise AnalysisError(f"issuing condition depends on something other than the rule configuration: {sorted(extra)} in {show(f)}")
    return f


# --------------------------------------------------------------------------- T1: which questions are asked


@dataclass
class Issue:
    kind: str  # explicit | other
    func: FuncInfo
    call: ast.AST
    formula: Formula
    method: str


def issuing_conditions(repo: Repo, inl: "Inliner | None" = None) -> list[Issue]:
    """One Issue per call site of a graph question; `formula` is true exactly at the legal points (either direction) at which the
    interpreted rule evaluation reaches that call site."""
    sites: dict = {}
    for sc in legal_scenarios():
        run = run_scenario(repo, sc)
        for q in run.queries:
            if q.guard == FALSE:
                continue
            k = (id(q.node), q.name)
            sites.setdefault(k, {"ev": q, "points": set()})["points"].add((sc.verb, sc.exc))
    out = []
    for (_nid, name), d in sites.items():
        ev = d["ev"]
        table = {p: (p in d["points"]) for p in LEGAL_POINTS}
        out.append(Issue("explicit" if name == EXPLICIT_QUERY else "other", ev.fi, ev.node, _pretty(table), name))
    if not any(i.kind == "explicit" for i in out) or not any(i.kind == "other" for i in out):
        raise AnalysisError("no evaluated rule reaches a call of the graph queries (get_dependencies / any_...): the call sites of the graph questions were not found")
    return out


def asked_at(issues: list[Issue], kind: str, env: dict[str, bool]) -> bool:
    return any(i.kind == kind and evaluate(i.formula, env) for i in issues)


# --------------------------------------------------------------------------- T2: bucket wiring


@dataclass
class Bucket:
    field: str
    method: str
    flag: Formula
    source: str  # explicit | other
    call: ast.Call | None


def plain_detector_class(repo: Repo) -> ClassInfo:
    """Class of the detector a module rule is judged by (built by the default matcher during an evaluated rule)."""
    run = run_scenario(repo, Scenario("should", False, True))
    if run.detector is not None:
        return run.detector.cls
    return repo.cls(DETECTOR, "RuleViolationDetector")


def violations_class(repo: Repo) -> ClassInfo:
    run = run_scenario(repo, Scenario("should", False, True))
    if run.violations is not None:
        return run.violations.cls
    return repo.cls(VIOLATIONS, "RuleViolations")


def _grv(repo: Repo) -> FuncInfo:
    grv = repo.lookup_method(plain_detector_class(repo), "get_rule_violation")
    if grv is None:
        raise AnalysisError("the detector of module rules has no get_rule_violation")
    return grv


def _bucket_calls(repo: Repo, T: Types, grv: FuncInfo) -> dict:
    """field -> the `self.<method>(...)` call that computes the bucket (syntactic; for rules that look at the method bodies)."""
    viol = violations_class(repo)
    base = grv.cls
    out: dict = {}
    fields = list(viol.ann_attrs)
    funcs = [grv] + [m for m in (base.methods.values() if base else []) if m is not grv]
    for f in funcs:
        for call in calls_in(f.node):
            ci = T.ctor_class(f, call)
            if ci is None or ci.fq != viol.fq:
                continue
            pairs = list(zip(fields, call.args)) + [(k.arg, k.value) for k in call.keywords if k.arg]
            for name, expr in pairs:
                seen = 0
                while isinstance(expr, ast.Name) and seen < 4:
                    defs = [n for n in own_nodes(f.node) if isinstance(n, ast.Assign) and len(n.targets) == 1 and isinstance(n.targets[0], ast.Name) and n.targets[0].id == expr.id]
                    if len(defs) != 1:
                        break
                    expr = defs[0].value
                    seen += 1
                for c in ast.walk(expr):
                    if isinstance(c, ast.Call) and isinstance(c.func, ast.Attribute) and dotted(c.func.value) == "self" and base is not None and repo.lookup_method(base, c.func.attr) is not None:
                        out[name] = c
                        break
    return out


def bucket_wiring(repo: Repo, inl: "Inliner | None" = None) -> tuple[FuncInfo, list[Bucket]]:
    """(get_rule_violation, one Bucket per RuleViolations field): gating flag as a formula over the configuration atoms, the
    query whose answer is judged, and the detector method computing it - all read off the interpreted detector."""
    T = types_of(repo)
    grv = _grv(repo)
    viol = violations_class(repo)
    calls = _bucket_calls(repo, T, grv)
    tables: dict = {f: {} for f in viol.ann_attrs}
    sources: dict = {f: set() for f in viol.ann_attrs}
    for v, e in LEGAL_POINTS:
        for imp in (True, False):
            b = demand_run(repo, Scenario(v, e, imp))
            missing = set(viol.ann_attrs) - set(b)
            if missing:
                raise AnalysisError(f"RuleViolations fields {sorted(missing)} are not set by get_rule_violation")
            for f in viol.ann_attrs:
                on = not b[f].empty
                tables[f][(v, e)] = tables[f].get((v, e), False) or on
                if on and b[f].source:
                    sources[f].add(b[f].source)
    buckets = []
    for f in viol.ann_attrs:
        src = sources[f]
        # a bucket that is never active (or judges several answers) is a finding of C01.T2 / C12, not an extraction failure
        one = next(iter(src)) if len(src) == 1 and next(iter(src)) in ("explicit", "other") else ("mixed" if src else "none")
        c = calls.get(f)
        buckets.append(Bucket(f, c.func.attr if c is not None else "", _pretty(tables[f]), one, c))
    return grv, buckets


def data_sources(repo: Repo, inl: "Inliner | None", grv: FuncInfo) -> dict[str, str]:
    """Parameter of get_rule_violation -> 'explicit' | 'other'."""
    m = data_param_sources(repo)
    return {p: m[f"DATA{i}"] for i, p in enumerate(grv.param_names[1:]) if f"DATA{i}" in m}


def point_taint(repo: Repo, verb: str, exc: bool) -> str:
    """Non-empty when the bucket table of a configuration point rests on a construct the interpreter walked without a model
    (a `while` loop, a handler, ...): a failed comparison at that point is *undecided*, not a finding."""
    for imp in (True, False):
        sc = Scenario(verb, exc, imp)
        notes = run_scenario(repo, sc).interp.notes
        for b in demand_run(repo, sc).values():
            if b.undecided:
                return b.undecided
            if not b.empty and b.mode in ("unknown", "mixed") and notes:
                return f"{b.field}: {b.detail or 'elements of unknown origin'} (the interpreter walked without a model: {'; '.join(notes[:3])})"
    return ""


def plain_mode(repo: Repo, field: str) -> tuple:
    """(mode, granularity, detail) of a bucket of the plain (module-rule) detector, over every point at which it is active."""
    modes, grans, details, und = set(), set(), [], ""
    for sc in legal_scenarios():
        b = demand_run(repo, sc)[field]
        if b.empty:
            und = und or b.undecided
            continue
        modes.add(b.mode)
        grans.add(b.gran)
        if b.detail:
            details.append(b.detail)
        und = und or b.undecided or point_taint(repo, sc.verb, sc.exc)
    mode = next(iter(modes)) if len(modes) == 1 else ("mixed" if modes else None)
    gran = next(iter(grans)) if len(grans) == 1 else ("joint" if "joint" in grans else "filtered" if "filtered" in grans else None)
    return mode, gran, "; ".join(dict.fromkeys(details)), und


# --------------------------------------------------------------------------- legacy syntactic mode classification (kept for C05: layer detector)


def _emptiness_tests(fn: FuncInfo) -> list[ast.AST]:
    """Tests of the form len(x) == 0 / len(x) > 0 / not x inside a function."""
    out = []
    for n in own_nodes(fn.node):
        if isinstance(n, ast.Compare) and len(n.ops) == 1 and isinstance(n.left, ast.Call) and isinstance(n.left.func, ast.Name) and n.left.func.id == "len":
            c = n.comparators[0]
            if isinstance(c, ast.Constant) and c.value in (0, 1):
                out.append(n)
    return out


def method_mode(repo: Repo, T: Types, cls: ClassInfo, method: str) -> tuple[str, str, FuncInfo]:
    """(mode, granularity, deciding function) of a concrete bucket method.

    present: returns the realised pairs (iterates the values' elements, no emptiness test)
    absent : returns keys whose realisation list is empty; granularity 'per-key' (each key judged) or 'joint' (all keys
             judged together: any realisation satisfies all)
    """
    m = repo.lookup_method(cls, method)
    if m is None or m.is_abstract:
        raise AnalysisError(f"{cls.fq}.{method}: no concrete implementation")
    # gate: non-empty result only when the flag is true and the data is not None
    rets = [s for s in own_nodes(m.node) if isinstance(s, ast.Return)]
    nonempty = [r for r in rets if not (isinstance(r.value, ast.Call) and isinstance(r.value.func, ast.Name) and r.value.func.id == "set" and not r.value.args)]
    if len(nonempty) != 1 or not isinstance(nonempty[0].value, ast.Call):
        raise AnalysisError(f"{m.fq}: expected one non-trivial `return self.<helper>(data)`")
    flag_param, data_param = m.param_names[1], m.param_names[2]
    from core.guards import implies

    cf = conds_formula(conds(m, nonempty[0]))
    want = f_and([atom(f"bool({flag_param})"), f_not(atom(f"{data_param} is None"))])
    if not implies(cf, want):
        raise AnalysisError(f"{m.fq}: the non-empty return is not gated by `{flag_param}` and `{data_param} is not None`")
    helper_call = nonempty[0].value
    if not (helper_call.args and isinstance(helper_call.args[0], ast.Name) and helper_call.args[0].id == data_param):
        raise AnalysisError(f"{m.fq}: helper is not applied to the data parameter")
    cs, _ = T.callees(m, helper_call, byname_fallback=False)
    # dispatch on the concrete class
    helper = repo.lookup_method(cls, helper_call.func.attr) if isinstance(helper_call.func, ast.Attribute) else None
    if helper is None:
        raise AnalysisError(f"{m.fq}: helper `{norm(helper_call.func)}` not found on {cls.name}")
    return (*classify_helper(repo, T, cls, helper), helper)


def _helper_chain(repo: Repo, cls: ClassInfo, helper: FuncInfo) -> list[FuncInfo]:
    """The helper and the detector methods it calls on self / super() with dependency data."""
    seen = [helper]
    work = [helper]
    while work:
        h = work.pop()
        for call in calls_in(h.node):
            if not isinstance(call.func, ast.Attribute):
                continue
            target = None
            v = call.func.value
            if isinstance(v, ast.Call) and isinstance(v.func, ast.Name) and v.func.id == "super":
                for c in repo.mro(h.cls)[1:]:
                    if call.func.attr in c.methods:
                        target = c.methods[call.func.attr]
                        break
            elif dotted(v) == "self":
                target = repo.lookup_method(cls, call.func.attr)
            if target is not None and target not in seen and target.module.name in (DETECTOR, LAYER_DETECTOR):
                seen.append(target)
                work.append(target)
    return seen


def _skip_body(body: list[ast.stmt]) -> str | None:
    if len(body) == 1:
        b = body[0]
        if isinstance(b, ast.Continue):
            return "continue"
        if isinstance(b, ast.Return) and isinstance(b.value, ast.Call) and isinstance(b.value.func, ast.Name) and b.value.func.id in ("set", "list") and not b.value.args:
            return "return"
        if isinstance(b, ast.Return) and isinstance(b.value, (ast.List, ast.Set)) and not b.value.elts:
            return "return"
    return None


def classify_helper(repo: Repo, T: Types, cls: ClassInfo, helper: FuncInfo) -> tuple[str, str]:
    """('present', 'per-pair' | 'filtered') or ('absent', 'per-key' | 'joint')."""
    chain = _helper_chain(repo, cls, helper)
    emptiness: list[tuple[FuncInfo, ast.AST, str]] = []
    filters: list[tuple[FuncInfo, ast.AST]] = []
    for h in chain:
        for n in own_nodes(h.node):
            if isinstance(n, ast.Compare) and len(n.ops) == 1 and isinstance(n.left, ast.Call) and isinstance(n.left.func, ast.Name) and n.left.func.id == "len":
                c = n.comparators[0]
                if isinstance(c, ast.Constant) and c.value in (0, 1):
                    gran = "per-key"
                    p = parent(n)
                    while p is not None and not isinstance(p, ast.stmt):
                        if isinstance(p, ast.Call) and isinstance(p.func, ast.Name) and p.func.id in ("any", "all"):
                            gran = "joint"
                        p = parent(p)
                    if isinstance(p, ast.If) and _skip_body(p.body) == "return":
                        gran = "joint"
                    emptiness.append((h, n, gran))
            elif isinstance(n, ast.If) and not isinstance(n.test, ast.Compare) and _skip_body(n.body) is not None and not n.orelse:
                # `if <data-derived>: continue / return set()`  (truthiness used as emptiness decision)
                if any(isinstance(x, ast.Compare) for x in ast.walk(n.test)):
                    if not any(isinstance(x, ast.Call) and isinstance(x.func, ast.Name) and x.func.id in ("any", "all") for x in ast.walk(n.test)):
                        continue
                emptiness.append((h, n, "joint" if _skip_body(n.body) == "return" else "per-key"))
            elif isinstance(n, ast.If) and isinstance(n.test, ast.Compare) and not n.orelse and h is not helper or (isinstance(n, ast.If) and isinstance(n.test, ast.Compare) and not n.orelse and not any(isinstance(x, ast.Return) for x in n.body)):
                if not (isinstance(n.test.left, ast.Call) and isinstance(n.test.left.func, ast.Name) and n.test.left.func.id == "len"):
                    filters.append((h, n))
    if not emptiness:
        return "present", ("filtered" if filters else "per-pair")
    grans = {g for _h, _n, g in emptiness}
    return "absent", ("joint" if "joint" in grans else "per-key")
