"""Decision-table extraction shared by C01, C12 and C13: verb/except -> questions asked -> buckets -> modes."""

from __future__ import annotations

import ast
import re
from dataclasses import dataclass

from core.guards import FALSE, TRUE, Formula, atom, atoms_of, conds_formula, evaluate, f_and, f_not, f_or, show, to_formula
from core.loader import AnalysisError, ClassInfo, FuncInfo, Repo, calls_in, norm, own_nodes, parent
from core.types import Types, members

from .common import conds, dotted, stmt_of, types_of, where

RULE = "pytestarch.query_language.rule"
MATCHER = "pytestarch.rule_assessment.rule_check.rule_matcher"
BEHAVIOR = "pytestarch.rule_assessment.rule_check.behavior_requirement"
MODREQ = "pytestarch.rule_assessment.rule_check.module_requirement"
DETECTOR = "pytestarch.rule_assessment.rule_check.rule_violation_detector"
LAYER_DETECTOR = "pytestarch.rule_assessment.rule_check.layer_rule_violation_detector"
VIOLATIONS = "pytestarch.rule_assessment.rule_check.rule_violations"
SEARCHES = "pytestarch.eval_structure.breadth_first_searches"
EVAL_GRAPH = "pytestarch.eval_structure.evaluable_graph"

VERBS = ("should", "should_only", "should_not")
ATOMS = ["should", "should_only", "should_not", "except_present"]
LEGAL_POINTS = [(v, e) for v in VERBS for e in (False, True)]

EXPLICIT_QUERY = "get_dependencies"
OTHER_QUERIES = (
    "any_dependencies_from_dependents_to_modules_other_than_dependent_upons",
    "any_other_dependencies_on_dependent_upons_than_from_dependents",
)

# frozen copy of the "simplified" Operation Markers block of LANGUAGE_DEFINTION.md (cross-checked against the file)
FROZEN_MARKERS = {
    "any": {("should", True), ("should_only", True)},
    "edge": {("should", False), ("should_only", False)},
    "neg edge": {("should_not", False), ("should_only", True)},
    "neg any": {("should_not", True), ("should_only", False)},
}
# frozen copy of the Semantics block: (verb, except) -> {(source, mode)}
FROZEN_SEMANTICS = {
    ("should", False): {("explicit", "absent")},
    ("should_only", False): {("explicit", "absent"), ("other", "present")},
    ("should_not", False): {("explicit", "present")},
    ("should", True): {("other", "absent")},
    ("should_only", True): {("other", "absent"), ("explicit", "present")},
    ("should_not", True): {("other", "present")},
}


def point_env(verb: str, exc: bool) -> dict[str, bool]:
    return {"should": verb == "should", "should_only": verb == "should_only", "should_not": verb == "should_not", "except_present": exc}


def point_name(verb: str, exc: bool) -> str:
    return verb.replace("_", " ") + (" except" if exc else "")


# --------------------------------------------------------------------------- the document oracle


def _phrase(p: str) -> tuple[str, bool] | None:
    p = " ".join(p.strip().lower().split())
    exc = p.endswith(" except")
    if exc:
        p = p[: -len(" except")]
    verb = {"should": "should", "should only": "should_only", "should not": "should_not"}.get(p)
    return (verb, exc) if verb else None


def parse_language_doc(repo: Repo) -> tuple[dict, dict]:
    path = repo.src / "query_language" / "LANGUAGE_DEFINTION.md"
    if not path.exists():
        raise AnalysisError("LANGUAGE_DEFINTION.md (the oracle of C01/C12) not found")
    text = path.read_text(encoding="utf-8")
    m = re.search(r"^simplified:\s*\n((?:[ \t]+\S.*\n)+)", text, re.M)
    if not m:
        raise AnalysisError("LANGUAGE_DEFINTION.md: 'simplified' operation marker block not found")
    markers: dict[str, set] = {}
    for line in m.group(1).splitlines():
        mm = re.match(r"^\s+(any|edge|neg edge|neg any)\s{2,}(.*)$", line)
        if not mm:
            continue
        pts = {_phrase(p) for p in mm.group(2).split(",")}
        if None in pts:
            raise AnalysisError(f"LANGUAGE_DEFINTION.md: cannot read marker line {line!r}")
        markers[mm.group(1)] = pts
    sem: dict[tuple[str, bool], set] = {}
    sm = re.search(r"^## Semantics\s*\n(.*?)(?:\n\s*\n\s*\nM1 should be_imported_from|\Z)", text, re.S | re.M)
    if not sm:
        raise AnalysisError("LANGUAGE_DEFINTION.md: Semantics block not found")
    prev_first = None
    for line in sm.group(1).splitlines():
        lm = re.match(r"^M1 (should(?: only| not)?) import( except)? M2\s*->\s*(.*)$", line.strip())
        if not lm:
            continue
        verb = lm.group(1).replace(" ", "_")
        exc = bool(lm.group(2))
        items = []
        depth = 0
        cur = ""
        for ch in lm.group(3):
            if ch == "(":
                depth += 1
            if ch == ")":
                depth -= 1
            if ch == "," and depth == 0:
                items.append(cur.strip())
                cur = ""
            else:
                cur += ch
        items.append(cur.strip())
        out = set()
        for i, it in enumerate(items):
            if it == '-"-':
                it = prev_first
            if it.startswith("neg(any edge"):
                out.add(("other", "present"))
            elif it.startswith("neg(edge"):
                out.add(("explicit", "present"))
            elif it.startswith("any edge"):
                out.add(("other", "absent"))
            elif it.startswith("edge"):
                out.add(("explicit", "absent"))
            else:
                raise AnalysisError(f"LANGUAGE_DEFINTION.md: cannot read semantics item {it!r}")
            if i == 0 and items[0] != '-"-':
                prev_first = items[0]
        sem[(verb, exc)] = out
    if markers != FROZEN_MARKERS or sem != FROZEN_SEMANTICS:
        raise AnalysisError("LANGUAGE_DEFINTION.md no longer agrees with the checker's frozen copy of the documented semantics (the oracle moved): " f"markers={markers} semantics={sem}")
    return markers, sem


# --------------------------------------------------------------------------- inlining requirement flags


class Inliner:
    """Rewrites boolean expressions over requirement objects into formulas over the four rule-configuration atoms."""

    def __init__(self, repo: Repo) -> None:
        self.repo = repo
        self.T = types_of(repo)
        self.behavior = repo.cls(BEHAVIOR, "BehaviorRequirement")
        self.roles = self._behavior_field_roles()

    def _behavior_field_roles(self) -> dict[str, str]:
        """BehaviorRequirement field -> rule configuration field, derived from the constructor call in Rule."""
        init = self.behavior.methods.get("__init__")
        if init is None:
            raise AnalysisError("BehaviorRequirement.__init__ not found")
        param_of_field: dict[str, str] = {}
        for n in own_nodes(init.node):
            if isinstance(n, ast.Assign) and isinstance(n.value, ast.Name) and n.value.id in init.param_names:
                for t in n.targets:
                    if isinstance(t, ast.Attribute) and dotted(t.value) == "self":
                        param_of_field[t.attr] = n.value.id
        # constructor call site(s)
        role_of_param: dict[str, str] = {}
        sites = 0
        for f in self.repo.module(RULE).all_funcs:
            for call in calls_in(f.node):
                ci = self.T.ctor_class(f, call)
                if ci is not None and ci.fq == self.behavior.fq:
                    sites += 1
                    params = init.param_names[1:]
                    for i, a in enumerate(call.args):
                        if i < len(params) and isinstance(a, ast.Attribute):
                            role_of_param[params[i]] = a.attr
                    for k in call.keywords:
                        if k.arg and isinstance(k.value, ast.Attribute):
                            role_of_param[k.arg] = k.value.attr
        if sites != 1:
            raise AnalysisError(f"expected exactly one BehaviorRequirement construction in rule.py, found {sites}")
        roles = {fld: role_of_param.get(p, p) for fld, p in param_of_field.items()}
        if set(roles.values()) < set(ATOMS):
            raise AnalysisError(f"BehaviorRequirement fields do not cover the configuration atoms: {roles}")
        return roles

    def formula(self, fi: FuncInfo, e: ast.expr, depth: int = 0) -> Formula:
        def subst(x: ast.expr) -> Formula | None:
            if depth > 6:
                return None
            if isinstance(x, ast.Attribute):
                bt = self.T.expr(fi, x.value)
                for m in members(bt):
                    if m[0] == "cls" and m[1] == self.behavior.fq:
                        meth = self.repo.lookup_method(self.behavior, x.attr)
                        if meth is not None and meth.is_property:
                            rets = [s for s in meth.body if isinstance(s, ast.Return)]
                            body = [s for s in meth.body if not (isinstance(s, ast.Expr) and isinstance(s.value, ast.Constant))]
                            if len(body) == 1 and len(rets) == 1 and rets[0].value is not None:
                                return self.formula(meth, rets[0].value, depth + 1)
                            raise AnalysisError(f"{meth.fq}: property is not a single return expression (cannot inline)")
                        if x.attr in self.roles:
                            return atom(self.roles[x.attr])
            return None

        return to_formula(e, subst)

    def conds(self, fi: FuncInfo, node: ast.AST) -> Formula:
        return f_and([self.formula(fi, e) if pol else f_not(self.formula(fi, e)) for e, pol in conds(fi, node)])


def restrict(f: Formula) -> Formula:
    """Formulas must only mention configuration atoms (plus `is None` data atoms which callers strip)."""
    extra = atoms_of(f) - set(ATOMS)
    if extra:
        raise AnalysisError(f"issuing condition depends on something other than the rule configuration: {sorted(extra)} in {show(f)}")
    return f


# --------------------------------------------------------------------------- T1: which questions are asked


@dataclass
class Issue:
    kind: str  # explicit | other
    func: FuncInfo
    call: ast.AST
    formula: Formula
    method: str


def issuing_conditions(repo: Repo, inl: Inliner) -> list[Issue]:
    matcher = repo.cls(MATCHER, "RuleMatcher")
    out: list[Issue] = []
    for m in matcher.methods.values():
        for n in own_nodes(m.node):
            if isinstance(n, ast.Attribute) and isinstance(n.ctx, ast.Load) and n.attr in (EXPLICIT_QUERY, *OTHER_QUERIES):
                bt = inl.T.expr(m, n.value)
                # the receiver must be the evaluable (Protocol EvaluableArchitecture)
                if not any(mm[0] == "cls" and mm[1].endswith("EvaluableArchitecture") for mm in members(bt)):
                    continue
                kind = "explicit" if n.attr == EXPLICIT_QUERY else "other"
                # the question is issued where the bound method is *called*: directly, or through a local alias
                p = parent(n)
                if isinstance(p, ast.Call) and p.func is n:
                    f = inl.conds(m, p)
                    out.append(Issue(kind, m, p, f, n.attr))
                else:
                    st = stmt_of(n)
                    if not (isinstance(st, ast.Assign) and len(st.targets) == 1 and isinstance(st.targets[0], ast.Name)):
                        raise AnalysisError(f"{m.fq}: query method `{n.attr}` used in an unrecognised way: {norm(st)}")
                    alias = st.targets[0].id
                    calls = [c for c in calls_in(m.node) if isinstance(c.func, ast.Name) and c.func.id == alias]
                    if not calls:
                        raise AnalysisError(f"{m.fq}: alias {alias} of query method is never called")
                    for c in calls:
                        f = f_and([inl.conds(m, c), inl.conds(m, st)])
                        out.append(Issue(kind, m, c, f, n.attr))
    if not any(i.kind == "explicit" for i in out) or not any(i.kind == "other" for i in out):
        raise AnalysisError("RuleMatcher: the call sites of the graph queries were not found")
    return out


def strip_non_config(f: Formula) -> Formula:
    """Existentially drop atoms that are not configuration atoms (e.g. direction flags), keeping satisfiability per point."""
    return f


def asked_at(issues: list[Issue], kind: str, env: dict[str, bool]) -> bool:
    for i in issues:
        if i.kind != kind:
            continue
        extra = sorted(atoms_of(i.formula) - set(ATOMS))
        import itertools

        for vals in itertools.product([False, True], repeat=len(extra)):
            e = dict(env)
            e.update(dict(zip(extra, vals)))
            if evaluate(i.formula, e):
                return True
    return False


# --------------------------------------------------------------------------- T2: bucket wiring


@dataclass
class Bucket:
    field: str
    method: str
    flag: Formula
    source: str  # explicit | other
    call: ast.Call


def bucket_wiring(repo: Repo, inl: Inliner) -> tuple[FuncInfo, list[Bucket]]:
    base = repo.cls(DETECTOR, "RuleViolationBaseDetector")
    viol = repo.cls(VIOLATIONS, "RuleViolations")
    grv = None
    ctor = None
    for m in base.methods.values():
        for call in calls_in(m.node):
            ci = inl.T.ctor_class(m, call)
            if ci is not None and ci.fq == viol.fq:
                grv, ctor = m, call
    if grv is None:
        raise AnalysisError("no construction of RuleViolations found in RuleViolationBaseDetector")
    # expectation flags: local = self.<fn>() returning Ctor(kw=expr)
    flag_exprs: dict[tuple[str, str], tuple[FuncInfo, ast.expr]] = {}
    for n in own_nodes(grv.node):
        if isinstance(n, ast.Assign) and len(n.targets) == 1 and isinstance(n.targets[0], ast.Name) and isinstance(n.value, ast.Call):
            cs, _ = inl.T.callees(grv, n.value, byname_fallback=False)
            for c in cs:
                rets = [s for s in own_nodes(c.node) if isinstance(s, ast.Return)]
                if len(rets) == 1 and isinstance(rets[0].value, ast.Call) and rets[0].value.keywords:
                    for k in rets[0].value.keywords:
                        flag_exprs[(n.targets[0].id, k.arg)] = (c, k.value)
    # data parameters -> source, from the call site of get_rule_violation in the matcher
    data_source = data_sources(repo, inl, grv)
    buckets: list[Bucket] = []
    for k in ctor.keywords:
        if not (isinstance(k.value, ast.Call) and isinstance(k.value.func, ast.Attribute) and dotted(k.value.func.value) == "self"):
            raise AnalysisError(f"{grv.fq}: bucket {k.arg} is not computed by a detector method: {norm(k.value)}")
        call = k.value
        if len(call.args) != 2:
            raise AnalysisError(f"{grv.fq}: bucket {k.arg}: expected (flag, data) arguments")
        fa, da = call.args
        if isinstance(fa, ast.Attribute) and isinstance(fa.value, ast.Name) and (fa.value.id, fa.attr) in flag_exprs:
            owner, expr = flag_exprs[(fa.value.id, fa.attr)]
            flag = inl.formula(owner, expr)
        else:
            flag = inl.formula(grv, fa)
        restrict(flag)
        if not (isinstance(da, ast.Name) and da.id in data_source):
            raise AnalysisError(f"{grv.fq}: bucket {k.arg}: data argument `{norm(da)}` is not one of the two query results")
        buckets.append(Bucket(k.arg, call.func.attr, flag, data_source[da.id], call))
    fields = [a for a in viol.ann_attrs]
    if sorted(b.field for b in buckets) != sorted(fields):
        raise AnalysisError(f"RuleViolations fields {fields} are not all wired: {[b.field for b in buckets]}")
    return grv, buckets


def data_sources(repo: Repo, inl: Inliner, grv: FuncInfo) -> dict[str, str]:
    """Parameter of get_rule_violation -> 'explicit' | 'other', traced through the matcher's call site."""
    from core.flow import Flow, Spec

    matcher = repo.cls(MATCHER, "RuleMatcher")

    def sources(f: FuncInfo, e: ast.expr):
        if isinstance(e, ast.Attribute) and isinstance(e.ctx, ast.Load):
            if e.attr == EXPLICIT_QUERY:
                return {"explicit"}
            if e.attr in OTHER_QUERIES:
                return {"other"}
        return None

    def transfer(f, call, names, args, recv, kwargs):
        if isinstance(call.func, ast.Attribute) and call.func.attr == EXPLICIT_QUERY:
            return {"explicit"}
        if isinstance(call.func, ast.Attribute) and call.func.attr in OTHER_QUERIES:
            return {"other"}
        return None

    flow = Flow(repo, inl.T, Spec(sources=sources, transfer=transfer, scope=lambda f: f.module.name in (MATCHER,)))
    params = grv.param_names[1:]
    out: dict[str, str] = {}
    for m in matcher.methods.values():
        for call in calls_in(m.node):
            if isinstance(call.func, ast.Attribute) and call.func.attr == grv.name:
                for i, a in enumerate(call.args):
                    if i < len(params):
                        tags = flow.tags(a)
                        if len(tags) != 1:
                            raise AnalysisError(f"{m.fq}: argument `{norm(a)}` of {grv.name} derives from {sorted(tags) or 'no'} query (expected exactly one)")
                        out[params[i]] = next(iter(tags))
    if len(out) != 2:
        raise AnalysisError("call site of get_rule_violation not found in RuleMatcher")
    return out


# --------------------------------------------------------------------------- modes of the concrete detector methods


def _emptiness_tests(fn: FuncInfo) -> list[ast.AST]:
    """Tests of the form len(x) == 0 / len(x) > 0 / not x inside a function."""
    out = []
    for n in own_nodes(fn.node):
        if isinstance(n, ast.Compare) and len(n.ops) == 1 and isinstance(n.left, ast.Call) and isinstance(n.left.func, ast.Name) and n.left.func.id == "len":
            c = n.comparators[0]
            if isinstance(c, ast.Constant) and c.value in (0, 1):
                out.append(n)
    return out


def method_mode(repo: Repo, T: Types, cls: ClassInfo, method: str) -> tuple[str, str, FuncInfo]:
    """(mode, granularity, deciding function) of a concrete bucket method.

    present: returns the realised pairs (iterates the values' elements, no emptiness test)
    absent : returns keys whose realisation list is empty; granularity 'per-key' (each key judged) or 'joint' (all keys
             judged together: any realisation satisfies all)
    """
    m = repo.lookup_method(cls, method)
    if m is None or m.is_abstract:
        raise AnalysisError(f"{cls.fq}.{method}: no concrete implementation")
    # gate: non-empty result only when the flag is true and the data is not None
    rets = [s for s in own_nodes(m.node) if isinstance(s, ast.Return)]
    nonempty = [r for r in rets if not (isinstance(r.value, ast.Call) and isinstance(r.value.func, ast.Name) and r.value.func.id == "set" and not r.value.args)]
    if len(nonempty) != 1 or not isinstance(nonempty[0].value, ast.Call):
        raise AnalysisError(f"{m.fq}: expected one non-trivial `return self.<helper>(data)`")
    flag_param, data_param = m.param_names[1], m.param_names[2]
    from core.guards import implies

    cf = conds_formula(conds(m, nonempty[0]))
    want = f_and([atom(f"bool({flag_param})"), f_not(atom(f"{data_param} is None"))])
    if not implies(cf, want):
        raise AnalysisError(f"{m.fq}: the non-empty return is not gated by `{flag_param}` and `{data_param} is not None`")
    helper_call = nonempty[0].value
    if not (helper_call.args and isinstance(helper_call.args[0], ast.Name) and helper_call.args[0].id == data_param):
        raise AnalysisError(f"{m.fq}: helper is not applied to the data parameter")
    cs, _ = T.callees(m, helper_call, byname_fallback=False)
    # dispatch on the concrete class
    helper = repo.lookup_method(cls, helper_call.func.attr) if isinstance(helper_call.func, ast.Attribute) else None
    if helper is None:
        raise AnalysisError(f"{m.fq}: helper `{norm(helper_call.func)}` not found on {cls.name}")
    return (*classify_helper(repo, T, cls, helper), helper)


def _helper_chain(repo: Repo, cls: ClassInfo, helper: FuncInfo) -> list[FuncInfo]:
    """The helper and the detector methods it calls on self / super() with dependency data."""
    seen = [helper]
    work = [helper]
    while work:
        h = work.pop()
        for call in calls_in(h.node):
            if not isinstance(call.func, ast.Attribute):
                continue
            target = None
            v = call.func.value
            if isinstance(v, ast.Call) and isinstance(v.func, ast.Name) and v.func.id == "super":
                for c in repo.mro(h.cls)[1:]:
                    if call.func.attr in c.methods:
                        target = c.methods[call.func.attr]
                        break
            elif dotted(v) == "self":
                target = repo.lookup_method(cls, call.func.attr)
            if target is not None and target not in seen and target.module.name in (DETECTOR, LAYER_DETECTOR):
                seen.append(target)
                work.append(target)
    return seen


def _skip_body(body: list[ast.stmt]) -> str | None:
    if len(body) == 1:
        b = body[0]
        if isinstance(b, ast.Continue):
            return "continue"
        if isinstance(b, ast.Return) and isinstance(b.value, ast.Call) and isinstance(b.value.func, ast.Name) and b.value.func.id in ("set", "list") and not b.value.args:
            return "return"
        if isinstance(b, ast.Return) and isinstance(b.value, (ast.List, ast.Set)) and not b.value.elts:
            return "return"
    return None


def classify_helper(repo: Repo, T: Types, cls: ClassInfo, helper: FuncInfo) -> tuple[str, str]:
    """('present', 'per-pair' | 'filtered') or ('absent', 'per-key' | 'joint')."""
    chain = _helper_chain(repo, cls, helper)
    emptiness: list[tuple[FuncInfo, ast.AST, str]] = []
    filters: list[tuple[FuncInfo, ast.AST]] = []
    for h in chain:
        for n in own_nodes(h.node):
            if isinstance(n, ast.Compare) and len(n.ops) == 1 and isinstance(n.left, ast.Call) and isinstance(n.left.func, ast.Name) and n.left.func.id == "len":
                c = n.comparators[0]
                if isinstance(c, ast.Constant) and c.value in (0, 1):
                    gran = "per-key"
                    p = parent(n)
                    while p is not None and not isinstance(p, ast.stmt):
                        if isinstance(p, ast.Call) and isinstance(p.func, ast.Name) and p.func.id in ("any", "all"):
                            gran = "joint"
                        p = parent(p)
                    if isinstance(p, ast.If) and _skip_body(p.body) == "return":
                        gran = "joint"
                    emptiness.append((h, n, gran))
            elif isinstance(n, ast.If) and not isinstance(n.test, ast.Compare) and _skip_body(n.body) is not None and not n.orelse:
                # `if <data-derived>: continue / return set()`  (truthiness used as emptiness decision)
                if any(isinstance(x, ast.Compare) for x in ast.walk(n.test)):
                    if not any(isinstance(x, ast.Call) and isinstance(x.func, ast.Name) and x.func.id in ("any", "all") for x in ast.walk(n.test)):
                        continue
                emptiness.append((h, n, "joint" if _skip_body(n.body) == "return" else "per-key"))
            elif isinstance(n, ast.If) and isinstance(n.test, ast.Compare) and not n.orelse and h is not helper or (isinstance(n, ast.If) and isinstance(n.test, ast.Compare) and not n.orelse and not any(isinstance(x, ast.Return) for x in n.body)):
                if not (isinstance(n.test.left, ast.Call) and isinstance(n.test.left.func, ast.Name) and n.test.left.func.id == "len"):
                    filters.append((h, n))
    if not emptiness:
        return "present", ("filtered" if filters else "per-pair")
    grans = {g for _h, _n, g in emptiness}
    return "absent", ("joint" if "joint" in grans else "per-key")
