"""Thorough tier: mutant self-test of the rules of one property.

Each mutant is a single source edit (that still parses) applied to a scratch copy of /repo's *current* src tree under
tempfile.mkdtemp() (outside /repo and /verif, removed afterwards). The property's rules are re-run on the copy: the rule named by
the mutant must fire there. The unmutated tree is analysed by the main run. The test-suite is never run (that would be a
different technique); whether the seeded variants pass the suite was established when they were collected (seeded/*/meta.json).

A mutant whose anchor text no longer occurs in the current tree (because /repo was edited) is skipped and reported, not failed.

Second half (the other direction): every behaviour-preserving refactoring kept in /verif/refactorings*/<id>/patch.diff (written by
independent agents, suite-neutral, see meta.json) is applied to a scratch copy as well; the property's rules must stay silent there -
no violation and no "cannot classify". A refactoring listed in refactorings/EXPECTED_UNDECIDED.json for this property may end in
"undecided" (exit 2 of a quick run), never in a violation.
"""

from __future__ import annotations

import ast
import importlib
import multiprocessing as mp
import os
import shutil
import subprocess
import tempfile
from pathlib import Path

HERE = Path(__file__).resolve().parent
VERIF = HERE.parent


def _load_mutants(pid: str) -> list[dict]:
    out: list[dict] = []
    try:
        mod = importlib.import_module(f"mutants.{pid.lower()}")
        out += list(mod.MUTANTS)
    except ModuleNotFoundError:
        pass
    # further corpora of the same property kept in separate files: mutants/<pid>_<topic>.py
    for extra in sorted((HERE / "mutants").glob(f"{pid.lower()}_*.py")):
        out += list(importlib.import_module(f"mutants.{extra.stem}").MUTANTS)
    # seeded changes collected from independent sub-agents (seeded/<id>/patch.diff + meta.json)
    # (all rounds: seeded/, seeded_r3/ ... - detected_by is refreshed by tools/seed_matrix.py)
    import json

    for seeded in sorted(VERIF.glob("seeded*")):
        if not seeded.is_dir():
            continue
        for d in sorted(seeded.iterdir()):
            meta = d / "meta.json"
            if not meta.exists():
                continue
            m = json.loads(meta.read_text())
            if pid in m.get("detected_by", {}):
                out.append({"id": f"seed:{d.name}", "patch": str(d / "patch.diff"), "expect": m["detected_by"][pid], "desc": m.get("summary", "")})
    return out


def _apply(m: dict, root: Path) -> str | None:
    """Apply the mutant to the copy at `root`; returns None on success or the reason it is not applicable."""
    if "patch" in m:
        r = subprocess.run(["git", "apply", "--whitespace=nowarn", ("-R" if m.get("reverse") else "--verbose"), m["patch"]], cwd=root, capture_output=True, text=True)
        if r.returncode != 0:
            return f"patch does not apply: {r.stderr.strip().splitlines()[-1] if r.stderr.strip() else r.returncode}"
        return None
    path = root / m["file"]
    if not path.exists():
        return f"{m['file']} missing"
    src = path.read_text()
    if src.count(m["old"]) != 1:
        return f"anchor text occurs {src.count(m['old'])} times in {m['file']}"
    new = src.replace(m["old"], m["new"])
    try:
        ast.parse(new)
    except SyntaxError as e:
        return f"mutant does not parse: {e}"
    path.write_text(new)
    return None


def _run_one(args: tuple[str, dict, str]) -> dict:
    pid, m, repo = args
    import sys

    sys.path.insert(0, str(HERE))
    from core.loader import AnalysisError

    import check

    tmp = Path(tempfile.mkdtemp(prefix="pta-mutant-"))
    try:
        shutil.copytree(Path(repo) / "src", tmp / "src")
        if (Path(repo) / "docs").is_dir():
            shutil.copytree(Path(repo) / "docs", tmp / "docs")
        subprocess.run(["git", "init", "-q", "."], cwd=tmp, capture_output=True)
        why = _apply(m, tmp)
        if why is not None:
            return {"id": m["id"], "status": "skipped", "why": why}
        try:
            res = check.analyse(pid, tmp)
        except AnalysisError as e:
            return {"id": m["id"], "status": "analysis-error", "why": str(e), "expect": m["expect"]}
        fired = sorted({o.rule for o in res.violations})
        expect = m["expect"] if isinstance(m["expect"], list) else [m["expect"]]
        hit = [r for r in fired if any(r == e or r.startswith(e + ".") or r.startswith(e) for e in expect)]
        named = [o.construct for o in res.violations if o.rule in hit][:3]
        return {"id": m["id"], "status": "killed" if hit else "survived", "fired": fired, "expect": expect, "constructs": named, "desc": m.get("desc", "")}
    finally:
        shutil.rmtree(tmp, ignore_errors=True)


def _load_refactorings() -> list[dict]:
    out = []
    # all corpora of behaviour-preserving refactorings: refactorings/, refactorings_heldout/, refactorings_heldout2/ ...
    for d in sorted(VERIF.glob("refactorings*")):
        if not d.is_dir():
            continue
        for r in sorted(d.iterdir()):
            if (r / "patch.diff").exists() and (r / "meta.json").exists():
                out.append({"id": f"refac:{r.name}", "patch": str(r / "patch.diff")})
    return out


def _run_refac(args: tuple[str, dict, str]) -> dict:
    pid, m, repo = args
    import sys

    sys.path.insert(0, str(HERE))
    from core.loader import AnalysisError

    import check

    tmp = Path(tempfile.mkdtemp(prefix="pta-refac-"))
    try:
        shutil.copytree(Path(repo) / "src", tmp / "src")
        if (Path(repo) / "docs").is_dir():
            shutil.copytree(Path(repo) / "docs", tmp / "docs")
        subprocess.run(["git", "init", "-q", "."], cwd=tmp, capture_output=True)
        why = _apply(m, tmp)
        if why is not None:
            return {"id": m["id"], "status": "skipped", "why": why}
        try:
            res = check.analyse(pid, tmp)
        except AnalysisError as e:
            return {"id": m["id"], "status": "undecided", "why": str(e)[:300]}
        bad = [f"{o.rule} {o.construct[-100:]}" for o in res.violations]
        return {"id": m["id"], "status": "alarm" if bad else "silent", "fired": bad[:4]}
    finally:
        shutil.rmtree(tmp, ignore_errors=True)


def run(pid: str, seed: int) -> dict:
    import sys

    sys.path.insert(0, str(HERE))
    from core.loader import repo_root

    mutants = _load_mutants(pid)
    repo = str(repo_root())
    if not mutants:
        return {"mutants_total": 0, "selftest_failures": [f"no mutants registered for {pid}"]}
    jobs = [(pid, m, repo) for m in mutants]
    workers = min(16, len(jobs), os.cpu_count() or 1)
    ctx = mp.get_context("fork")
    with ctx.Pool(workers) as pool:
        results = pool.map(_run_one, jobs)
        refacs = _load_refactorings()
        refac_results = pool.map(_run_refac, [(pid, m, repo) for m in refacs]) if refacs else []
    expected_undecided: set[str] = set()
    exp_file = VERIF / "refactorings" / "EXPECTED_UNDECIDED.json"
    if exp_file.exists():
        import json

        expected_undecided = set(json.loads(exp_file.read_text()).get(pid, []))
    killed = [r for r in results if r["status"] == "killed"]
    skipped = [r for r in results if r["status"] == "skipped"]
    bad = [r for r in results if r["status"] in ("survived", "analysis-error")]
    failures = [f"mutant {r['id']} {r['status']}: expected {r.get('expect')}, fired {r.get('fired', r.get('why'))}" for r in bad]
    for r in refac_results:
        name = r["id"].split(":", 1)[1]
        if r["status"] == "alarm" or (r["status"] == "undecided" and name not in expected_undecided):
            failures.append(f"behaviour-preserving refactoring {name}: {r['status']} - {r.get('fired') or r.get('why')}")
    return {
        "refactorings_total": len(refac_results),
        "refactorings_silent": sum(1 for r in refac_results if r["status"] == "silent"),
        "refactorings_undecided_expected": sorted(r["id"] for r in refac_results if r["status"] == "undecided" and r["id"].split(":", 1)[1] in expected_undecided),
        "refactorings_skipped": sum(1 for r in refac_results if r["status"] == "skipped"),
        "refactorings": refac_results,
        "mutants_total": len(results),
        "mutants_killed": len(killed),
        "mutants_skipped": len(skipped),
        "mutants": results,
        "selftest_failures": failures,
        "selftest_note": "each mutant is one source edit on a scratch copy of the current tree; 'killed' = the expected rule fired and named a construct",
    }
