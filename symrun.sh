#!/bin/bash
# usage: symrun.sh module qualname [root]
cd /tmp/eng/C13/engine && VERIF_REPO=${3:-/repo} /venv/bin/python -c "
import sys; sys.path.insert(0,'.')
from core.loader import Repo
from rules import c13_sym as S
repo=Repo(); f=repo.func('$1','$2')
print(S.describe(S.run(repo,f)))
" 2>&1 | grep -v conda
