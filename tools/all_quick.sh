#!/bin/bash
# runs all 17 quick checks in parallel against $VERIF_REPO (default /repo); prints only non-passing output
export VERIF_EVIDENCE_DIR=${VERIF_EVIDENCE_DIR:-/tmp/allquick-ev}
mkdir -p $VERIF_EVIDENCE_DIR
for i in 01 02 03 04 05 06 07 08 09 10 11 12 13 14 15 16 17; do
  ( out=$(/venv/bin/python $(dirname $(readlink -f $0))/../engine/check.py C$i --tier quick 2>&1); c=$?; if [ $c -ne 0 ]; then echo "== C$i exit=$c"; echo "$out" | grep -v "WARNING conda" | cut -c1-600 | head -${LINES_MAX:-12}; fi ) &
done
wait
echo "all_quick done"
