#!/venv/bin/python
"""Copies behaviour-preserving refactorings from the sub-agents' worktrees into /verif/refactorings/<id>/ after re-verifying them
(patch applies on /repo HEAD, compiles, pinned suite unchanged). Verification runs on scratch copies (git archive), 8 at a time."""
import json, multiprocessing as mp, os, shutil, subprocess, sys, tempfile
from pathlib import Path

VERIF = Path(__file__).resolve().parents[1]
out = VERIF / os.environ.get("REFAC_OUT", "refactorings")
SRC = Path(os.environ.get("REFAC_SRC", "/tmp/refac"))


def verify(sd: Path):
    tmp = Path(tempfile.mkdtemp(prefix="refacverify-"))
    try:
        subprocess.run(f"git -C /repo archive HEAD | tar -x -C {tmp}", shell=True, check=True)
        subprocess.run(["git", "init", "-q", "."], cwd=tmp, capture_output=True)
        r = subprocess.run(["git", "apply", "--whitespace=nowarn", str(sd / "patch.diff")], cwd=tmp, capture_output=True, text=True)
        if r.returncode != 0:
            return sd, "PATCH-FAILED " + r.stderr.strip()[-100:], False
        c = subprocess.run(["/venv/bin/python", "-m", "compileall", "-q", "src"], cwd=tmp, capture_output=True)
        suite = subprocess.run(f"PYTHONPATH={tmp}/src timeout 600 /venv/bin/python -m pytest -q -p no:cacheprovider --timeout=60 --ignore=tests/test_architecture.py 2>&1 | tail -1", shell=True, cwd=tmp, capture_output=True, text=True).stdout.strip()
        ok = suite.startswith("5 failed, 851 passed") and c.returncode == 0
        return sd, suite, ok
    finally:
        shutil.rmtree(tmp, ignore_errors=True)


def main():
    out.mkdir(exist_ok=True)
    todo = []
    for sd in sorted(SRC.glob("*/REFAC/C*-*")):
        dst = out / sd.name
        if (dst / "meta.json").exists() and "--force" not in sys.argv:
            continue
        if not (sd / "patch.diff").exists() or (sd / "patch.diff").stat().st_size == 0:
            continue
        todo.append(sd)
    with mp.get_context("fork").Pool(8) as pool:
        for sd, suite, ok in pool.imap_unordered(verify, todo):
            print(sd.name, suite, "=> KEEP" if ok else "=> REJECT")
            if not ok:
                continue
            dst = out / sd.name
            dst.mkdir(exist_ok=True)
            for f in ("patch.diff", "notes.md"):
                if (sd / f).exists():
                    shutil.copy(sd / f, dst / f)
            (dst / "meta.json").write_text(json.dumps({"id": sd.name, "property": sd.name.split("-")[0], "kind": "behaviour-preserving refactoring (independent sub-agent; only the property text and file list were given)", "verified": suite, "checks": {}}, indent=1) + "\n")


if __name__ == "__main__":
    main()
