#!/venv/bin/python
"""Copies behaviour-preserving refactorings from the sub-agents' worktrees into /verif/refactorings/<id>/ after re-verifying them
(patch applies on /repo HEAD, compiles, pinned suite unchanged)."""
import json, shutil, subprocess, sys, tempfile
from pathlib import Path

VERIF = Path("/verif")
out = VERIF / "refactorings"
out.mkdir(exist_ok=True)
for sd in sorted(Path("/tmp/refac").glob("C*/REFAC/C*-*")):
    dst = out / sd.name
    if (dst / "meta.json").exists() and "--force" not in sys.argv:
        continue
    if not (sd / "patch.diff").exists():
        continue
    wt = Path(tempfile.mkdtemp(prefix="refacverify-")); wt.rmdir()
    subprocess.run(["git", "-C", "/repo", "worktree", "add", "-q", "--detach", str(wt), "HEAD"], check=True)
    try:
        r = subprocess.run(["git", "apply", "--whitespace=nowarn", str(sd / "patch.diff")], cwd=wt, capture_output=True, text=True)
        if r.returncode != 0:
            print(sd.name, "PATCH-FAILED", r.stderr.strip()[-100:]); continue
        suite = subprocess.run(f"PYTHONPATH={wt}/src timeout 600 /venv/bin/python -m pytest -q -p no:cacheprovider --timeout=30 --ignore=tests/test_architecture.py 2>&1 | tail -1", shell=True, cwd=wt, capture_output=True, text=True).stdout.strip()
        ok = suite.startswith("5 failed, 851 passed")
        print(sd.name, suite, "=> KEEP" if ok else "=> REJECT")
        if not ok:
            continue
        dst.mkdir(exist_ok=True)
        for f in ("patch.diff", "notes.md"):
            if (sd / f).exists():
                shutil.copy(sd / f, dst / f)
        (dst / "meta.json").write_text(json.dumps({"id": sd.name, "property": sd.name.split("-")[0], "kind": "behaviour-preserving refactoring (independent sub-agent; only the property text and file list were given)", "verified": suite, "checks": {}}, indent=1) + "\n")
    finally:
        subprocess.run(["git", "-C", "/repo", "worktree", "remove", "--force", str(wt)], capture_output=True)
