#!/venv/bin/python
"""Copies verified seeded changes from the sub-agents' scratch worktrees into /verif/seeded/<id>/ (patch.diff, demo.py, notes.md, meta.json)."""
import json, os, re, shutil, subprocess, sys
from pathlib import Path

VERIF = Path(__file__).resolve().parents[1]
out = VERIF / os.environ.get("SEED_OUT", "seeded")
out.mkdir(exist_ok=True)
for sd in sorted(Path(os.environ.get("SEED_SRC", "/tmp/seed2")).glob("C*/SEED/C*-*")):
    dst = out / sd.name
    if (dst / "meta.json").exists() and "--force" not in sys.argv:
        continue
    r = subprocess.run([str(VERIF / "tools/verify_seed.sh"), str(sd)], capture_output=True, text=True)
    line = [l for l in r.stdout.splitlines() if l.startswith(sd.name)]
    line = line[-1] if line else r.stdout.strip()[-300:]
    ok = "demo_pristine=0" in line and "demo_patched=0" not in line and "5 failed, 851 passed" in line and "compile=0" in line
    print(line, "=> KEEP" if ok else "=> REJECT")
    if not ok:
        continue
    dst.mkdir(exist_ok=True)
    for f in ("patch.diff", "demo.py", "notes.md"):
        if (sd / f).exists():
            shutil.copy(sd / f, dst / f)
    notes = (sd / "notes.md").read_text() if (sd / "notes.md").exists() else ""
    files = sorted(set(re.findall(r"^\+\+\+ b/(\S+)", (sd / "patch.diff").read_text(), re.M)))
    meta = {
        "id": sd.name,
        "property": sd.name.split("-")[0],
        "origin": "independent sub-agent given only the property text and a scratch worktree of /repo (no access to /verif)",
        "files": files,
        "summary": " ".join(notes.split())[:600],
        "needs_to_manifest": "see notes.md",
        "verified": {
            "by": "tools/verify_seed.sh on a fresh worktree of /repo HEAD " + subprocess.run(["git", "-C", "/repo", "log", "--format=%h", "-1"], capture_output=True, text=True).stdout.strip(),
            "result": line,
            "meaning": "patch applies and compiles; pinned suite unchanged (5 pre-existing failures, 851 passed; run with --ignore=tests/test_architecture.py --timeout=30); demo.py exits 0 without and non-zero with the patch",
        },
        "detected_by": {},
    }
    (dst / "meta.json").write_text(json.dumps(meta, indent=1) + "\n")
