#!/venv/bin/python
"""Regenerates /verif/MANIFEST.json from the table below and the rule modules present in engine/rules."""

import json
from pathlib import Path

VERIF = Path(__file__).resolve().parents[1]
PY = "/venv/bin/python"

# property id -> (claimed clause, technique, trusted base / level note, design ref)
CLAIMS = {
    "C01": (
        "Decides, for every rule configuration (6 verb/except points x 2 directions + the 2 'anything' aliases), the dispatch from the fluent configuration to graph questions and from answers to the verdict, read off an abstract interpretation of Rule.assert_applies: which questions are asked (vs the table parsed from LANGUAGE_DEFINTION.md), which query feeds which violation bucket under which flag and in which mode (present / absent per key, classified from add-events and their guards), no starved bucket, importer/importee exchange parity and provenance of every query argument, freshness of a second evaluation of the same rule object, effect table of every fluent method and the alias rewrite (flags kept, objects = subjects de-duplicated only by whole dotted descendants), AssertionError exactly on a truthy RuleViolations covering all fields; plus the search discipline of the four graph searches (every neighbour classified by edge kind before push / record / mark, only hierarchy edges followed from the subject, no early exit from neighbour or worklist loops, object / own / excluded sets built as documented). Does NOT decide that the searches return the right set on every graph.",
        'abstract interpretation of the public entry points over the AST (checker-owned evaluator: symbolic inputs, resolved calls followed, both branches taken, events with path conditions; nothing of /repo is executed, no solver) + decision tables compared with the document oracle + guard implication over the search model (events with guards on normalised inline views)',
        'CPython ast; LANGUAGE_DEFINTION.md as oracle (cross-checked against a frozen copy); engine resolver / CFG / guard enumeration',
        "DESIGN.md section 4 C01 (meaning of the rules) and section 11 (how they are decided since the re-engineering)",
    ),
    "C02": (
        "Decides the mechanism of the property as symbolic test cases against the public entry points ImportConverter.convert, the Import API and NetworkxGraph(...): an Import and an ImportFrom placed at each of the statement-list positions of the running interpreter's ast grammar (also nested below every other position) come out as records; one record per imported name with the scanned file as importer; for `from P import n` the importee is P'.n exactly when the path decided `P'.n in internal` and P' otherwise, independently per name; the relative anchor is the importer minus `level` components; import-record constructors lie in the collector's call tree; graph construction adds an importer->importee edge without hierarchy marker only after both endpoints are known nodes and drops an edge only as self-edge, unknown endpoint or duplicate; records are de-duplicated only by a key that determines the edge.",
        "abstract interpretation of the public entry points over the AST (checker-owned evaluator: symbolic inputs, resolved calls followed, both branches taken, events with path conditions; nothing of /repo is executed, no solver) with a grammar oracle read from the interpreter's ast classes",
        "CPython ast docstrings describe the grammar; checker's models of ast / networkx / functools / itertools builtins",
        "DESIGN.md section 4 C02 (meaning of the rules) and section 11 (how they are decided since the re-engineering)",
    ),
    "C03": (
        "Decides necessary conditions of exact reports for all graphs and rules: the 'something else' searches never expand a module outside the subject's subtree and the excluded objects; every pair in every violation bucket is (subject, object) in both rule directions; no pair of a query result is dropped by a data-dependent condition in the detector or on the way into the message, every bucket reaches the report and every line is built from subject, object and all fields of the record; a missing-import line lists all of and only the objects paired with its subject (grouping followed through defaultdict / setdefault / groupby with its sortedness precondition / dict.fromkeys aliasing); each query runs one search per given module with only the graph, its own key and the complete opposite set and stores it under its own key; a second RuleMatcher.match reads no field derived from the first evaluable. Does NOT decide equality of the rendered set with a reference violating set.",
        'abstract interpretation of the public entry points over the AST (checker-owned evaluator: symbolic inputs, resolved calls followed, both branches taken, events with path conditions; nothing of /repo is executed, no solver) with role / provenance / loop-iteration identity carried by abstract values',
        "engine search model; checker's abstract interpreter",
        "DESIGN.md section 4 C03 (meaning of the rules) and section 11 (how they are decided since the re-engineering)",
    ),
    "C04": (
        'Decides on symbolic executions of get_evaluable_architecture, get_evaluable_architecture_for_module_objects, Parser.parse, NetworkxGraph.__init__ and ImportConverter.convert: the module-object entry point is a pure delegation and every option reaches the consumer of its role; a module is registered exactly for every non-excluded directory / .py file and descent, reading and parsing happen only after the exclusion test on the path itself; the module name is the root directory name plus the dotted path relative to the root (one component per path part); every scanned module and all its ancestors become nodes with an inherits edge per consecutive pair and nodes are never created from imported names; the absolute-import prefix is module_path.parent relative to root_path.parent and every absolute importee is `prefix.name` exactly when that is a scanned module (decision table over all membership scenarios), relative importees never are. Does NOT decide names for arbitrary trees or sub-scan = restriction as a relation between scans.',
        'abstract interpretation of the public entry points over the AST (checker-owned evaluator: symbolic inputs, resolved calls followed, both branches taken, events with path conditions; nothing of /repo is executed, no solver) + normal forms of path / name terms + decision tables',
        'pathlib / os.path semantics as modelled by the checker',
        "DESIGN.md section 4 C04 (meaning of the rules) and section 11 (how they are decided since the re-engineering)",
    ),
    "C05": (
        "Decides the layer-rule mechanism on devirtualised inline views of the public LayerRule / Rule / RuleMatcher entry points: every LayerRule word delegates to exactly the documented Rule word and are_named hands over all filters of each named layer with their own regex flag; the matcher is wired to a LayerMapping and the mapping given to the detector is total over all layers, built from every conversion result and derived from the architecture's current definition (no stale snapshot); 'other' pairs are judged on the same-layer-filtered set (both ends, right polarity) and a layer is satisfied by any realisation; the layer lookup compares whole dotted components and its ancestor walk covers every ancestor and the name itself (unrolled on 1-3 component names); no late-bound closure; no conversion guarded by state that match itself writes. Does NOT decide verdicts over all partitions.",
        'inline views (helper bodies substituted, self-calls devirtualised) + guard implication + tag-flow + small abstract interpreter for shapes of the query results + F-NAME lint',
        'C01 (module rules the layer rule is lowered to); rules/tables.py; rules/names.py',
        "DESIGN.md section 4 C05 (meaning of the rules) and section 11 (how they are decided since the re-engineering)",
    ),
    "C06": (
        'Decides on an abstract interpretation of PumlParser.parse: every documented declaration and dependency form (116-line form table, each embedded in a multi-line text as its call site uses the pattern) yields exactly the expected (name, alias) resp. (dependor, dependee) record through the regular expressions reconstructed from whatever builds them, with group roles derived from what they capture; tail / head groups flow into keys / value sets of the returned relation; per-component merging accumulates and never overwrites; declared names reach the relation only through alias resolution and all names reach the component set, the alias never does; records compared in sets / as keys compare on the alias too; the tag slicing folded on nine concrete layouts (tagged, noise around, missing / swapped / adjacent tags) scans exactly the body or raises PumlParsingError. Does NOT decide arbitrary generated diagrams or forms outside the documented subset.',
        'abstract interpretation of the public entry points over the AST (checker-owned evaluator: symbolic inputs, resolved calls followed, both branches taken, events with path conditions; nothing of /repo is executed, no solver) (container shapes with provenance atoms of regex-group captures, constant folding of the string fragment) + regex-language membership on the sre parse tree',
        "re._parser.parse gives the pattern's AST; checker's regex interpreter (cross-validated against re each run)",
        "DESIGN.md section 4 C06 (meaning of the rules) and section 11 (how they are decided since the re-engineering)",
    ),
    "C07": (
        'Decides by symbolic evaluation of the public stages on symbolic inputs (M, D, FLAG, P, R, EV) compared with an executable specification in normal form and, where normal forms differ as text, on all small finite models (<= 3 components, both modes, with/without prefix, <= 3 rules each failing or passing): convert(ParsedDependencies(M, D)) is the bag of one should(-only) rule per key of D over its targets plus one should-not rule per component over M - {m} - D.get(m) iff non-empty; MultipleRuleApplier evaluates every rule under exactly AssertionError and raises the join of the bag of all caught messages iff one was collected; ModulePrefixer.prefix and the three documented fluent protocols equal the reference pipeline parse -> prefix -> convert -> apply, also on a second evaluation of the same DiagramRule object. Equivalence with pairwise conformance on all graphs relies on C01 for each generated rule.',
        "abstract interpretation of the public entry points over the AST (checker-owned evaluator: symbolic inputs, resolved calls followed, both branches taken, events with path conditions; nothing of /repo is executed, no solver) + term normalisation + exhaustive comparison on small finite models of the checker's own term language",
        'C01 (meaning of generated module rules)',
        "DESIGN.md section 4 C07 (meaning of the rules) and section 11 (how they are decided since the re-engineering)",
    ),
    "C08": (
        "Decides the exclusion mechanism: the glob -> regex converter, interpreted over a symbolic string P + X + S for the seven classes of globs, yields ['.*'] + escape(text) + ['.*' | '$'] (proof per class, else a concrete counterexample glob / path); the exclusion predicate is `exists p in compiled patterns: re.match(p, str(path))` over all configured patterns, unfiltered, with the full path string as subject; every descend / read / parse / register event of the scan is guarded by 'not excluded' on the path itself and, for recursive listings (rglob / os.walk / glob('**')), by 'no excluded directory above it' established through whole path components; the option plumbing maps the converter over all globs, passes regexes unchanged and never None. Does NOT decide 'filtered scan = unfiltered scan minus matches' on all trees.",
        'abstract interpretation of the public entry points over the AST (checker-owned evaluator: symbolic inputs, resolved calls followed, both branches taken, events with path conditions; nothing of /repo is executed, no solver) (symbolic strings; existential terms; scan events with guards over canonical path atoms)',
        "re.escape escapes all metacharacters; checker's symbolic string operations (differentially fuzzed against Python, 583k cases)",
        "DESIGN.md section 4 C08 (meaning of the rules) and section 11 (how they are decided since the re-engineering)",
    ),
    "C09": (
        "Decides the flattening mechanism with a checker-owned finite-domain evaluator over whitelisted pure operations: every raw module / import name reaching a networkx sink has passed an expression tabulated (6 limits x 12 names incl. textual-prefix siblings) to be the identity without a limit and the first limit+1 components otherwise, with no class- or module-level state; every add_edge is guarded by inequality of exactly the inserted values and any other limit-dependent pair test equals 'both flatten to the same node'; the limit handed to the graph is None for None and the user's limit plus the number of levels between root_path and module_path (4 limits x 6 path pairs); any statement where the limit meets the module or import list withholds an import only if both ends flatten to the same node. Does NOT decide the quotient law between two scans.",
        "tag-flow to graph sinks + tabulation of AST slices by the checker's finite-domain evaluator + guard implication + dependence analysis",
        "checker's evaluator whitelist (str, int, list, dict, set, PurePosixPath, posixpath, re)",
        "DESIGN.md section 4 C09 (meaning of the rules) and section 11 (how they are decided since the re-engineering)",
    ),
    "C10": (
        'Decides on a symbolic model of the scan pipeline from generate_graph to NetworkxGraph(modules, imports): the retention condition of an internal import and of a scanned internal module is the same for every value of the external options; the internal test compares whole dotted components (F-NAME sites reachable from generate_graph, zip-truncation lint); names derived from an import become modules only when the internal test rejects the importee and every retained external import has its importee and ancestors in the module list; with externals excluded only internal imports remain and the module list is unchanged, with externals included an import is dropped exactly when its importee or any ancestor (walk unrolled on 1-4 component names) matches a pattern; the scan pipeline writes no class- or module-level state. Does NOT decide equality of internal sub-graphs across configurations as a relation between scans.',
        'abstract interpretation of the public entry points over the AST (checker-owned evaluator: symbolic inputs, resolved calls followed, both branches taken, events with path conditions; nothing of /repo is executed, no solver) (lists described as parts with guards over FLAG / HAS / EXCL / INT atoms) + F-NAME lint + effect analysis',
        'rules/names.py; core/effects.py',
        "DESIGN.md section 4 C10 (meaning of the rules) and section 11 (how they are decided since the re-engineering)",
    ),
    "C11": (
        "Relational by-construction argument on inline views of the public entry points: per evaluation the regex conversion runs unconditionally before every query, on both sides, against the evaluable being queried, and every query argument / detector / message generator reads this evaluation's conversion (state kept between evaluations only if assert_applies provably builds a fresh matcher); convert returns exactly the name filters of all modules m with re.match(f.identifier, m) for some regex filter f plus the non-regex filters, and raises ImpossibleMatch exactly when a pattern matched nothing, before any return; the partial-name and regex forms store one regex filter per given name (convert_partial_match_to_regex(n) resp. n); the three queries run one independent search per element of the full key sets and store it under its own key (batch = conjunction). Regexes matching a module and its sub modules are outside the property (documented caveat).",
        'inline views + collection descriptions (what a collection holds, drawn from where, under which guard) + provenance + dominance',
        're.match semantics; C15 purity',
        "DESIGN.md section 4 C11 (meaning of the rules) and section 11 (how they are decided since the re-engineering)",
    ),
    "C12": (
        "Decides the algebraic laws on the tables C01 extracts by abstract interpretation: duality (same explicit query after exactly one importer/importee exchange, direction-independent predicate), negation (same source, complementary present / absent predicates, nothing filtered in between), decomposition (equal bucket sets and predicates), alias rewrite, and the monotonicity lemma (the traversals classify every neighbour, never exit early and never depend on import edges outside the subject's subtree / excluded objects). Laws for batched related operands are covered only as far as the tables imply.",
        "set algebra over the decision tables of C01's abstract interpretation + search-model guard implication",
        "C01's tables; C15 purity",
        "DESIGN.md section 4 C12 (meaning of the rules) and section 11 (how they are decided since the re-engineering)",
    ),
    "C13": (
        "Decides on abstract runs of the public entry points that undefined or incomplete specifications are rejected before a verdict can exist: for each of six invalid-specification formulas (no verb / import type / subject / object, 'anything' without should_not, should_not with another verb) no normal return, verdict site or AssertionError raise of Rule.assert_applies is consistent with it, also after rewrites and on re-evaluation; the requirement class raises for contradictory verbs; side guards of the fluent words; LayerRule words need architecture and rule; DiagramRule needs the file and, per tag, a search whose 'absent' outcome reaches no verdict; the three invalid option combinations and module_path outside root_path admit no normal return; AssertionError is raised only from values derived from evaluation; no broad / lookup-error handler around graph accesses; every subject / object / layer name reaches a raising lookup on every path. Does NOT explore call histories beyond the second evaluation.",
        'abstract interpretation of the public entry points over the AST (checker-owned evaluator: symbolic inputs, resolved calls followed, both branches taken, events with path conditions; nothing of /repo is executed, no solver) (outcomes and events with path conditions, satisfiability by enumeration over a cone of influence) + taint analysis of verdict raises + handler inventory',
        'networkx raises for missing nodes; Path.relative_to raises',
        "DESIGN.md section 4 C13 (meaning of the rules) and section 11 (how they are decided since the re-engineering)",
    ),
    "C14": (
        "Decides a necessary condition of renaming invariance for all names: every string-relational operation (startswith / endswith / removeprefix / find / index / count / replace / partition / split / in / re.* / fnmatch / commonprefix / slicing by len or index / slice-compare / bisect ranges) whose operand derives from a module name (provenance by flow analysis from the public name sources) uses an idiom that compares whole dotted components - classified safe / unsafe / unknown by a must-analysis of the needle's origins (does every origin end in the separator or is it a plain name, through locals, fields, parameters at every call site, returns) with a may-tag fallback, relations established on the path, in callers, by predicate helpers or by construction as an ancestor; names are cut, joined and compared only at '.'; sub-module sets follow hierarchy edges. 145 idioms in a positive fixture are classified on every run. Does NOT decide invariance under renaming as a relation between two runs.",
        'custom lint with provenance (tag-flow) + must/may origin analysis + guard-established relations + positive fixture',
        'engine flow analysis; idioms of engine/fixtures/name_ops.py',
        "DESIGN.md section 4 C14 (meaning of the rules) and section 11 (how they are decided since the re-engineering)",
    ),
    "C15": (
        "Decides purity structurally (for all histories, interleavings and hash seeds rather than sampled ones): the graph holder's constructor freezes the graph attribute itself on every path with no mutation afterwards, registers all modules before any import edge, and no graph mutator is reachable from an evaluation entry point; nothing reachable from assert_applies / the queries / visualize / modules writes to long-lived objects (ownership analysis to depth 3 through aliases, containers, fields, closures) except an idempotent, argument-independent self-rewrite; no set-iteration order reaches text (position-sensitive through tuples, helper returns and generators; sorted / sort restore order); no class-, module-level or escaping-closure state and no observable cache; in loops over collections whose order is not part of the contract (sets, directory listings, caller-listed sequences) no keep-or-drop decision reads what earlier iterations accumulated, except de-duplication on the element's own identity. Does NOT decide seed / ordering effects inside networkx / matplotlib.",
        'ownership / effect analysis over the call graph + tag-flow for unordered collections + CFG dominance on inline views + loop-carried-state analysis',
        'networkx.freeze makes mutators raise; engine resolver / call graph',
        "DESIGN.md section 4 C15 (meaning of the rules) and section 11 (how they are decided since the re-engineering)",
    ),
    "C16": (
        "Decides the builder guards by abstract interpretation of the public LayeredArchitecture / LayerRule / Rule words: no raw `str | list[str]` value is iterated; LayerRule.are_named raises exactly for 'wrapped rule on the subject side and (subject present or list)' in every state reachable by sequences of the documented words up to 5 calls (own-state representations included), leaves the side flag's truth value unchanged and the side-flag table of layers_that / behaviour words / access words holds; layer() stores an empty value only under 'no pending layer and name unused'; module-assigning words write only with exactly one pending layer (pending-set predicate evaluated on [] and ()), the duplicate guard covers the whole normalised argument against the identifiers of all stored filters of any class; the stored entry's key is the pending layer, the value one filter per element in order, and __getitem__ / __str__ read it back unfiltered. Sequences are explored only as far as stated.",
        'abstract interpretation of the public entry points over the AST (checker-owned evaluator: symbolic inputs, resolved calls followed, both branches taken, events with path conditions; nothing of /repo is executed, no solver) (events with path conditions turned into formulas over small integer lengths, exhaustive model enumeration) + raw-value flow analysis + positive fixture',
        "checker's interpreter; engine/fixtures/c16_union_params.py",
        "DESIGN.md section 4 C16 (meaning of the rules) and section 11 (how they are decided since the re-engineering)",
    ),
    "C17": (
        "Decides the plot-label mechanism on a deep view of the public entry points visualize -> draw (helpers of any name / location substituted, comprehensions and table loops unrolled): visualize hands the caller's options to draw unchanged; the ancestor match is equivalent to 'equals or extends by whole components' and the label is the alias plus the rest of the name after the matched module, taken on the module's name; the most specific aliased ancestor wins (selection form x candidate domain - all aliased modules, unfiltered, or the module's lineage - x order x first / last / longest-match discipline); every graph node gets a label on every path with the full name as default; an alias for a module that is not a node of the drawn graph raises an error naming it (tested on the key itself) before labels are handed over; exactly spacing / aliases are consumed and pos / labels added, each iff its option was given, everything else reaches draw_networkx unchanged on every returning path; no self / class / module state is written. Does NOT compute label maps.",
        'deep inline view + symbolic evaluation of the options dict + guard equivalence (boolean helpers inlined) + CFG all-paths arguments + effect analysis + F-NAME lint',
        'rules/names.py; core/effects.py',
        "DESIGN.md section 4 C17 (meaning of the rules) and section 11 (how they are decided since the re-engineering)",
    ),
}

# session 4 (DESIGN.md section 12): clauses added to the claims, and - where a verdict can rest on it - the finite-table evaluation
ADDITIONS = {
    "C01": (" Added in session 4: names given after modules_that() / an object-introducing word reach the first ModuleRequirement on the right side (T5 names flow); the set exempt from 'something else' is exactly the subject's and the objects' sub trees (ancestors of the subject added to it are a violation); every node of the subject's own sub tree is expanded by the forward search even if an excepted module contains it (found defect D21, repaired in /repo).", ""),
    "C02": (" Added in session 4: the constructor and the converter are additionally decided on constants (14 sample imports x 4 level limits on a model of networkx.DiGraph; 8 constant import statements) - a mismatch is a violation with the counterexample, and where the symbolic rule has no verdict this bounded decision stands in for it (DESIGN 12.5).", " + finite-table evaluation of the constructor / converter by the checker's own evaluator on constant inputs (bounded; DESIGN 12.5)"),
    "C04": (" Added in session 4: an os.walk based scan is decided on a model of os.walk (pruning must mutate the list in place, never while iterating it; followlinks); a character test on the imported name may not decide the importee; where the symbolic reading of the graph construction has no verdict, NetworkxGraph.__init__ is tabulated on 23 model inputs (bounded decision, obligation text says 'on the model'; DESIGN 12.5).", " + finite-table evaluation of NetworkxGraph.__init__ on 23 model inputs where the symbolic rule cannot read the construction (bounded; DESIGN 12.5)"),
    "C05": (" Added in session 4: nothing outside the LayeredArchitecture family mutates a per-layer list or the layer table in place (C05.R1.READONLY); the layer lookup is also unrolled with the raw-sorted list bound to adversarial siblings ('aa', 'aa-b', 'aa.bb': order-based skipping needs component-wise order).", ""),
    "C06": (" Added in session 4: parse is history-free (C06.R6: every location that outlives a call of parse and is written with input-dependent content is re-initialised on every path before it is read); an alias given in a later declaration survives an earlier alias-free mention of the same name however declarations are collected (R5 generalised); the two tag searches are related on the path to a result.", ""),
    "C07": (" Added in session 4: an evaluation equals a fresh pipeline with the configuration in force at that evaluation (re-configuration protocols with_base_module / from_file between two evaluations); when the applier collects e.args[0], every AssertionError raised on the verdict path of Rule.assert_applies carries its complete message as its only argument.", ""),
    "C08": (" Added in session 4: scans written as generators of records / os.walk loops are decided (exclusion guards of the yields are the guards of the consumer; in-place pruning or emptying of the sub-directory list); regular expressions given together with the default glob exclusions are either rejected or reach the scan.", ""),
    "C09": (" Added in session 4: the constructor is also evaluated on 41 model modules / 15 model imports under limits None, 1, 2, 3 with a model of networkx.DiGraph (C09.R6: the limited graph is the truncation of the full one, no self edges; two constructions with different limits on shared state each build their own graph); R6 explains violations with a concrete record and is the discharge of last resort for ledger-style constructions the flow rule cannot read (bounded; DESIGN 12.5).", " + finite-table evaluation of the constructor on model inputs (C09.R6; bounded; DESIGN 12.5)"),
    "C10": (" Added in session 4: with externals included, whether an import is retained depends only on pattern facts about the importee and its ancestors, whatever was filtered before (C10.R5 'an import is judged on its own': truth table over EXCL atoms in two processing orders; memo soundness decided semantically); no scan function mutates in place a value aliasing the result of a memoised function; excluded externals are not appended to the module list.", ""),
    "C11": (" Added in session 4: the filters built by have_name_containing are stored like those of have_name_matching (R3); the no-match error of the conversion reaches the caller of Rule.assert_applies unswallowed (R5); a search may not change in place the whole collection it is given when that collection is shared by the keys of a batch (R4).", ""),
    "C12": (" Added in session 4: a rule and its dual, and 'should only' and the 'should' it decomposes into, ask their shared question with the same arguments as functions of (importers, importees) - constant options of one callee are compared by interpreting the callee under both option sets. Added in session 5: the premise of the negation and decomposition laws - every requested key is present in the result of the three public graph queries and holds its own search result - is an obligation of C12.NEG itself (the [all keys] / [result per key] obligations of C11.R4 on those queries).", " + per-key completeness of the query results (C11.R4 obligations)"),
    "C13": (" Added in session 4: two independent tag searches whose slice is used are related on the path to a verdict; a bounded search never receives an end-relative negative bound; `with` over a repository context manager whose __exit__ can suppress (or contextlib.suppress) is a handler like `except`; option-conflict tables evaluated with next()/filter are read as decision tables; raising lookups are followed through helper objects and lookup tables with a raising fallback.", ""),
    "C14": (" Added in session 4: F-NAME.ORDER - a loop over module names sorted as plain strings must not stop, jump or forget names on a path where the current name is unrelated ('a' < 'a-b' < 'a.b': sub trees are contiguous only under a component-wise sort key); cuts whose relation rests on graph edges instead of the two names are unsafe; path-sensitive values of find / rfind indices; replace(p, x, 1) only under an established prefix relation.", ""),
    "C15": (" Added in session 4: producer / consumer protocols (chained generators of request records, ledgers materialised at the end) are fused into plain loops before the nodes-before-edges argument; instance memo tables and per-instance cache decorators are accepted only as unobservable memos (complete immutable key, value pure over construction-time state, copied or immutable on read).", ""),
    "C16": (" Added in session 4: when the duplicate check consults a builder attribute instead of the layer mapping, every write to the mapping is accompanied on every returning path by additions covering the identifiers written; a truth-value test of the architecture attribute is a test for None only while no __bool__ / __len__ is defined; helper objects that own the table and the guards, partial-bound callbacks and methodcaller steps are followed.", ""),
    "C17": (" Added in session 4: a label derived from the parent's label needs an order proof for the pass (sorted names, on-demand recursion; insertion order of graph nodes gives none); a carried 'enclosing alias' needs a pre-order (component-wise sort); the modules that receive an alias are selected by a predicate on the two names, never by graph reachability alone.", ""),
}

NOT_BUILT_REASON = "static check not built yet in this session (planned rules: DESIGN.md section 4); no claim is made"


def main() -> None:
    props = [json.loads(l) for l in (VERIF / "properties.jsonl").read_text().splitlines() if l.strip()]
    rules_dir = VERIF / "engine" / "rules"
    checks, na = [], []
    for p in props:
        pid = p["id"]
        if pid in CLAIMS and (rules_dir / f"{pid.lower()}.py").exists():
            text, technique, note, ref = CLAIMS[pid]
            extra_text, extra_tech = ADDITIONS.get(pid, ("", ""))
            text, technique = text + extra_text, technique + extra_tech
            ref = ref.replace("and section 11 (how they are decided since the re-engineering)", "section 11 (how they are decided since the re-engineering) and section 12 (session 4: new rules, modelled idioms, finite-table evaluations)")
            checks.append(
                {
                    "property_id": pid,
                    "quick_cmd": f"{PY} /verif/engine/check.py {pid} --tier quick",
                    "thorough_cmd": f"{PY} /verif/engine/check.py {pid} --tier thorough",
                    "evidence_file": f"/verif/evidence/{pid}.json",
                    "replay_cmd_template": f"{PY} /verif/engine/check.py --replay {{path}}",
                    "engine": "pta-static",
                    "level_claimed": {"category": "other", "text": text, "design_ref": ref},
                    "level_note": note,
                    "technique": "static analysis: " + technique,
                }
            )
        else:
            na.append({"property_id": pid, "reason": NA_REASONS.get(pid, NOT_BUILT_REASON)})
    manifest = {
        "version": 1,
        "setup_cmd": f"{PY} /verif/engine/check.py --self-check",
        "hooks": {
            "guard": "PYTESTARCH_VERIF",
            "enable": "no source hooks: the checks parse /repo/src from the working tree and never import or run pytestarch",
            "baseline_off_cmd": "cd /repo && /venv/bin/python -m pytest -ra -q -p no:cacheprovider --timeout=900 --continue-on-collection-errors",
            "source_commits": [],
            "add_only": True,
        },
        "engines": [
            {
                "name": "pta-static",
                "path": "/verif/engine",
                "serves_properties": [c["property_id"] for c in checks],
                "kind_free_text": "repository-specific static analyser (stdlib ast + networkx): loader/symbol table, annotation-driven resolver "
                "and call graph, statement CFG with dominators and path conditions, propositional guard formulas with exhaustive enumeration, "
                "tag-flow analysis, effect/ownership analysis, constant folding, regex interpreter on sre parse trees, boolean-helper inlining "
                "and statement-level inline views, per-property abstract interpreters of the public entry points (checker-owned evaluators "
                "over the AST; nothing of /repo is imported or executed, no solver); rules per property in engine/rules",
            }
        ],
        "checks": checks,
        "notes": "All checks are static: they read /repo/src on every run, never execute pytestarch and never run its tests. "
        "Exit 0 = all obligations discharged, 1 = VIOLATION (construct named), 2 = ANALYSIS-ERROR (fail-closed). "
        "21 genuine defects (D1-D21) were repaired in /repo as fix: commits (known_findings.txt holds only fixed: lines).",
        "not_applicable": na,
    }
    (VERIF / "MANIFEST.json").write_text(json.dumps(manifest, indent=1) + "\n")
    print(f"{len(checks)} checks, {len(na)} not_applicable")


NA_REASONS: dict[str, str] = {}

if __name__ == "__main__":
    main()
