#!/venv/bin/python
"""Regenerates /verif/MANIFEST.json from the table below and the rule modules present in engine/rules."""

import json
from pathlib import Path

VERIF = Path(__file__).resolve().parents[1]
PY = "/venv/bin/python"

# property id -> (claimed clause, technique, trusted base / level note, design ref)
CLAIMS = {
    "C01": (
        "Decides statically, for all inputs, the dispatch around the graph searches: which graph questions a (verb, except) rule asks "
        "(decision table extracted from BehaviorRequirement/RuleMatcher, compared with LANGUAGE_DEFINTION.md), how answers are wired into "
        "the eight violation buckets and judged (present/absent mode), direction swap parity, verdict raise, and the edge-kind discipline "
        "inside the three searches. Does NOT decide that the searches return the right set on every graph.",
        "decision-table extraction over AST boolean formulas + def-use wiring + search-discipline lint (ast/CFG)",
        "CPython ast; engine resolver; LANGUAGE_DEFINTION.md as oracle (cross-checked against a frozen copy)",
        "DESIGN.md section 4 C01",
    ),
    "C02": (
        "Decides the mechanism of the property for every statement position and import form: grammar-exhaustive descent of the import "
        "collector against the running interpreter's ast grammar, dispatch of both import statement classes with every alias consumed, "
        "`from P import n` looked up per name in the internal-module set without cross-name leakage, relative resolution shape, and "
        "who-may-create import records/edges (edges only between known modules, importer->importee).",
        "grammar-exhaustiveness over ast node classes + tag-flow (taint) analysis + dominance/guard implication",
        "CPython ast docstrings describe the grammar; ast.iter_child_nodes yields every child; engine flow/resolver",
        "DESIGN.md section 4 C02",
    ),
    "C15": (
        "Decides purity structurally (for all histories, interleavings and hash seeds rather than sampled ones): the graph is frozen after "
        "construction and graph mutators are reachable only from the constructor; nothing reachable from an evaluation entry point writes to "
        "long-lived objects (receiver, arguments, objects derived from them) - the one reviewed exception, the alias rewrite of "
        "Rule._configuration, is checked to be idempotent; no set-iteration order reaches text without sorted and no container is grown and "
        "shrunk inside one loop over a set; no function writes class-level/module-level state and nothing is memoised. Does NOT decide "
        "seed/ordering effects inside networkx/matplotlib.",
        "effect analysis over the call graph (freshness, mutated-receiver/parameter summaries) + tag-flow for unordered collections + dominance",
        "networkx.freeze makes mutators raise; engine resolver/call graph (CHA with name-based fallback), freshness analysis",
        "DESIGN.md section 4 C15",
    ),
    "C03": (
        "Decides four necessary conditions of exact reports for all graphs and rules: the 'something else' searches never expand a module "
        "outside the subject's subtree and the excluded objects (no unrelated import can be recorded); every pair reaching a violation bucket "
        "passes the re-orientation into user subject/object order exactly once; every bucket is rendered by both message generators, every "
        "pair yields a line, lines are de-duplicated by full text and sorted; missing-import lines list all objects grouped under one subject. "
        "Does NOT decide equality of the rendered set with a reference violating set.",
        "search-model guard implication + tag-flow (single application of the re-orientation) + exhaustiveness over RuleViolations fields",
        "engine search model, flow analysis and guard formulas",
        "DESIGN.md section 4 C03",
    ),
    "C11": (
        "Relational by-construction argument: compact and expanded rules drive the same pipeline with the same arguments. The regex conversion "
        "unconditionally dominates every query and everything downstream reads the converted requirement; a regex contributes exactly the name "
        "filters of the modules re.match accepts (accumulators change only under that test; unmatched raises before any result); partial names "
        "become the regex filter of their translation; the three queries run one independent search per key over the full key set and store it "
        "under that key (batch = conjunction). Regexes matching a module and its sub modules are outside the property (documented caveat).",
        "dominance + guard implication + loop-independence (no loop-carried / shared state) analysis",
        "re.match semantics; C15 purity; engine CFG/guards",
        "DESIGN.md section 4 C11",
    ),
    "C12": (
        "Decides the algebraic laws on the decision tables extracted from the code: duality (same explicit query after exactly one "
        "importer/importee exchange, direction-independent predicate), negation (same source, complementary present/absent predicates, nothing "
        "filtered in between), decomposition (bucket-set equality), alias rewrite, and the monotonicity lemma (traversals never depend on "
        "import edges outside the subject's subtree / excluded objects). Laws for batched related operands are covered only as far as the "
        "tables imply.",
        "decision-table extraction and set algebra over extracted tables + search-model guard implication",
        "C01's table extraction; C15 purity",
        "DESIGN.md section 4 C12",
    ),
    "C13": (
        "Decides per method and per guard (for all inputs, not per call history) that undefined or incomplete specifications are rejected "
        "before a verdict can exist: no rewrite preceding a validator makes its guard unsatisfiable; validators, None-guards, entry-point "
        "option guards and relative_to dominate evaluation / dereferences / state writes; AssertionError is raised only at the two verdict "
        "sites and src/ has no assert; no broad or lookup-error handler around graph accesses; contradictory verbs raise exactly for "
        "should_not + another verb; every subject/object/layer name reaches a raising lookup on every path; the required-configuration "
        "formula is exactly 'subject, verb, import type or object missing'. Does NOT explore call sequences.",
        "CFG dominance / must-pass-through + guard truth tables + who-may-raise and handler inventory (effect analysis)",
        "networkx raises for missing nodes; Path.relative_to raises; engine CFG and guard formulas",
        "DESIGN.md section 4 C13",
    ),
    "C14": (
        "Decides a necessary condition of renaming invariance for all names: every startswith / endswith / in / find / replace / regex / "
        "slice-by-length operation whose tested string derives from a module name (provenance computed by flow analysis, not variable names) "
        "uses an idiom that compares whole dotted components; the name-cutting helpers cut at '.' only; sub-module sets follow hierarchy edges. "
        "Does NOT decide invariance under renaming as a relation between two runs.",
        "custom lint over string-relational operations with provenance (tag-flow) classification and accepted boundary-safe idiom table",
        "engine flow analysis; accepted idioms listed in rules/names.py; reviewed user-pattern sites listed with reasons",
        "DESIGN.md section 4 C14",
    ),
    "C17": (
        "Decides the plot-label mechanism structurally for all trees and alias maps: boundary-safe, regex-free ancestor test; label = alias + "
        "remainder after the matched ancestor; candidates longest first, first match wins; every graph node labelled exactly once with the full "
        "name as default; aliases of unknown modules raise (naming the module) before any label is built; all other options reach the backend "
        "unchanged; label computation keeps no state. Does NOT compute label maps.",
        "F-NAME lint + dominance + shape checks of the label expression + effect analysis",
        "engine flow/CFG/effects",
        "DESIGN.md section 4 C17",
    ),
    "C05": (
        "Decides the layer-rule mechanism structurally: each LayerRule method delegates to the documented Rule method and are_named lowers a "
        "layer to all of its module filters with their own regex flag (no late-bound closure); lookups keyed by all layers are total on the "
        "regex conversion map; every judgement on concrete 'other' dependencies is made on the same-layer-filtered set; explicit pairs are "
        "grouped by the object-side module's layer and a layer is satisfied by any realisation; the layer of a module is found by whole dotted "
        "components. Does NOT decide verdicts over all partitions.",
        "delegation table + guard implication (total lookups) + tag-flow (sanitiser on every judgement) + late-binding closure lint + F-NAME lint",
        "C01 (module rules the layer rule is lowered to); engine flow/guards",
        "DESIGN.md section 4 C05",
    ),
    "C10": (
        "Decides structurally that external options cannot touch internal modules: every evaluation of an external exclusion predicate sits "
        "under a guard establishing the value is not internal; the internal test compares whole dotted components; the module list is extended "
        "only under the negated internal test; with externals excluded the module list is returned unchanged and imports are filtered by the "
        "internal test; an excluded ancestor excludes its descendants; the scan pipeline keeps no state between scans. Does NOT decide equality "
        "of internal sub-graphs across configurations (a relation between scans).",
        "tag-flow (provenance of external patterns) + guard implication + F-NAME lint + effect analysis",
        "engine flow analysis and guard formulas",
        "DESIGN.md section 4 C10",
    ),
    "C16": (
        "Decides the builder guards structurally, per call: every `str | list[str]` parameter is normalised before anything iterates it; "
        "LayerRule.are_named raises exactly when a further or batched layer is given on the subject side (truth table over side / subject "
        "present / argument kind); pending-layer, duplicate-name, exactly-one-pending and duplicate-module guards dominate the state writes, the "
        "duplicate check compares materialised collections over all stored modules, and the pending marker agrees with the type of stored "
        "values; accepted definitions are stored whole, in order, under the pending layer and read back unchanged. Does NOT explore sequences.",
        "use-classification of union-typed parameters + guard truth tables + CFG dominance of guards over state writes",
        "engine CFG / guard formulas / resolver",
        "DESIGN.md section 4 C16",
    ),
    "C04": (
        "Decides fully that the module-object entry point is a pure delegation (dirname(__file__) for the two module objects, every other "
        "parameter forwarded to the same-named one with the same default), and structurally: role forwarding into generate_graph; one "
        "registration per non-excluded directory / .py file under the dotted name of its path with the documented naming shape; ancestors and "
        "hierarchy edges for every module with nodes created only from scanned modules and importers; the absolute-import prefix and its "
        "uniform application to absolute (never relative) importees. Does NOT decide names for arbitrary trees or sub-scan = restriction.",
        "argument-forwarding analysis + CFG dominance + tag-flow (who-may-create nodes, prefix adjustment) + shape checks",
        "pathlib / os.path semantics; engine flow analysis",
        "DESIGN.md section 4 C04",
    ),
    "C08": (
        "Decides the exclusion mechanism structurally: in the glob-to-regex conversion the user's text reaches the result only through "
        "re.escape of the slice that strips at most one leading and one trailing marker, with '.*' and '$' placed per the 4-row table; a path is "
        "excluded iff re.match of some compiled pattern succeeds on its full string; directories are registered/descended and files "
        "registered/read/parsed only after the exclusion test on their own path; every glob is converted and the pattern tuple is never None. "
        "Does NOT decide 'filtered scan = unfiltered scan minus matches' on all trees.",
        "tag-flow (taint through re.escape) + decision table of marker placement + CFG dominance + Optional-flow check",
        "re.escape escapes all metacharacters; engine flow / folding",
        "DESIGN.md section 4 C08",
    ),
    "C09": (
        "Decides the flattening mechanism structurally: during graph construction every node name reaching a networkx sink or the self-edge "
        "comparison has passed _flatten_graph_node; the self-edge test dominates add_edge; flattening keeps the first limit+1 dotted components, "
        "is the identity without a limit and is a pure function of (name, limit); the limit handed to the graph is the user's limit plus the "
        "number of dotted components between root_path and module_path, None stays None. Does NOT decide the quotient law between two scans.",
        "tag-flow (sanitiser on every sink) + dominance + shape checks + effect analysis",
        "engine flow analysis / CFG",
        "DESIGN.md section 4 C09",
    ),
    "C06": (
        "Decides that every documented declaration and dependency form (identifier / identifier with _ and digits / dotted names; refs [N], "
        "N, alias; arrows -->, ->, <--, <-, -text->, <-text-) is in the language of the regular expressions reconstructed from the source by "
        "constant folding, with the named groups binding name / alias / dependor / dependee as intended (decided on the patterns' sre parse "
        "trees by the checker's own interpreter, cross-validated against re on every run); per-component merging accumulates; aliases are "
        "resolved on both sides and the component set collects declared names, keys and values; missing tags raise. Does NOT decide arbitrary "
        "generated diagrams or forms outside the documented subset (listed as observations).",
        "constant folding of patterns + regex-language membership with group capture on the sre parse tree + merge/flow lints",
        "re._parser.parse gives the pattern's AST; checker's regex interpreter (cross-validated each run)",
        "DESIGN.md section 4 C06",
    ),
    "C07": (
        "Decides the diagram-rule mechanism structurally: the converter emits, per dependency key, one should_only()/should() import rule over "
        "all its targets (mode by the constructor flag) and, for every component, one should_not rule over all components minus itself minus "
        "its targets iff non-empty; the multi applier evaluates every rule, collects exactly AssertionError messages and raises their join "
        "after the loop; the base-module prefix is applied to component set, keys and values (identity without prefix) and every pipeline "
        "stage consumes its predecessor. Equivalence with pairwise conformance on all graphs relies on C01 for each generated rule.",
        "fluent-chain extraction + set-algebra shape check + tag-flow (prefix coverage) + dominance of the aggregated raise",
        "C01 (meaning of generated module rules); engine CFG / flow",
        "DESIGN.md section 4 C07",
    ),
}

NOT_BUILT_REASON = "static check not built yet in this session (planned rules: DESIGN.md section 4); no claim is made"


def main() -> None:
    props = [json.loads(l) for l in (VERIF / "properties.jsonl").read_text().splitlines() if l.strip()]
    rules_dir = VERIF / "engine" / "rules"
    checks, na = [], []
    for p in props:
        pid = p["id"]
        if pid in CLAIMS and (rules_dir / f"{pid.lower()}.py").exists():
            text, technique, note, ref = CLAIMS[pid]
            checks.append(
                {
                    "property_id": pid,
                    "quick_cmd": f"{PY} /verif/engine/check.py {pid} --tier quick",
                    "thorough_cmd": f"{PY} /verif/engine/check.py {pid} --tier thorough",
                    "evidence_file": f"/verif/evidence/{pid}.json",
                    "replay_cmd_template": f"{PY} /verif/engine/check.py --replay {{path}}",
                    "engine": "pta-static",
                    "level_claimed": {"category": "other", "text": text, "design_ref": ref},
                    "level_note": note,
                    "technique": "static analysis: " + technique,
                }
            )
        else:
            na.append({"property_id": pid, "reason": NA_REASONS.get(pid, NOT_BUILT_REASON)})
    manifest = {
        "version": 1,
        "setup_cmd": f"{PY} /verif/engine/check.py --self-check",
        "hooks": {
            "guard": "PYTESTARCH_VERIF",
            "enable": "no source hooks: the checks parse /repo/src from the working tree and never import or run pytestarch",
            "baseline_off_cmd": "cd /repo && /venv/bin/python -m pytest -ra -q -p no:cacheprovider --timeout=900 --continue-on-collection-errors",
            "source_commits": [],
            "add_only": True,
        },
        "engines": [
            {
                "name": "pta-static",
                "path": "/verif/engine",
                "serves_properties": [c["property_id"] for c in checks],
                "kind_free_text": "repository-specific static analyser (stdlib ast + networkx): loader/symbol table, annotation-driven resolver "
                "and call graph, statement CFG with dominators and path conditions, propositional guard formulas, tag-flow analysis, "
                "constant folding, regex NFA; rules per property in engine/rules",
            }
        ],
        "checks": checks,
        "notes": "All checks are static: they read /repo/src on every run, never execute pytestarch and never run its tests. "
        "Exit 0 = all obligations discharged, 1 = VIOLATION (construct named), 2 = ANALYSIS-ERROR (fail-closed). "
        "18 genuine defects were repaired in /repo as fix: commits (known_findings.txt).",
        "not_applicable": na,
    }
    (VERIF / "MANIFEST.json").write_text(json.dumps(manifest, indent=1) + "\n")
    print(f"{len(checks)} checks, {len(na)} not_applicable")


NA_REASONS: dict[str, str] = {}

if __name__ == "__main__":
    main()
