#!/venv/bin/python
"""Runs every check against every collected behaviour-preserving refactoring: all must stay silent (exit 0).
usage: refac_matrix.py [--props=C05,C14] [--write] [ids...]   (--write records the result in refactorings/*/meta.json)"""
import json, multiprocessing as mp, os, shutil, subprocess, sys, tempfile
from pathlib import Path

VERIF = Path(__file__).resolve().parents[1]
sys.path.insert(0, str(VERIF / "engine"))
PIDS = [f"C{i:02d}" for i in range(1, 18)]


def one(d):
    import check
    from core.loader import AnalysisError

    tmp = Path(tempfile.mkdtemp(prefix="pta-refac-"))
    try:
        subprocess.run(f"git -C /repo archive HEAD src docs | tar -x -C {tmp}", shell=True, check=True)
        subprocess.run(["git", "init", "-q", "."], cwd=tmp, capture_output=True)
        r = subprocess.run(["git", "apply", "--whitespace=nowarn", str(d / "patch.diff")], cwd=tmp, capture_output=True, text=True)
        if r.returncode != 0:
            return d.name, {"_error": ["patch does not apply"]}
        out = {}
        for pid in PIDS:
            try:
                res = check.analyse(pid, tmp)
                bad = [f"{o.rule} {o.construct[-90:]} :: {o.detail[:140]}" for o in res.violations]
                if bad:
                    out[pid] = bad
            except AnalysisError as e:
                out[pid] = ["ANALYSIS-ERROR: " + str(e)[:200]]
            except Exception as e:  # noqa
                out[pid] = [f"CRASH: {type(e).__name__}: {e}"[:200]]
        return d.name, out
    finally:
        shutil.rmtree(tmp, ignore_errors=True)


def main():
    global PIDS
    args = [a for a in sys.argv[1:] if not a.startswith("--")]
    for a in sys.argv[1:]:
        if a.startswith("--props="):
            PIDS = a.split("=", 1)[1].split(",")
    ds = [d for d in sorted((VERIF / os.environ.get("REFAC_DIR", "refactorings")).iterdir()) if (d / "meta.json").exists() and (not args or d.name in args)]
    with mp.get_context("fork").Pool(16) as pool:
        results = pool.map(one, ds)
    noisy = 0
    for name, out in results:
        meta_p = VERIF / os.environ.get("REFAC_DIR", "refactorings") / name / "meta.json"
        meta = json.loads(meta_p.read_text())
        if "--write" in sys.argv:
            meta["checks"] = {"silent": not out, "alarms": out}
            meta_p.write_text(json.dumps(meta, indent=1) + "\n")
        if out:
            noisy += 1
            print(f"{name}: ALARM")
            for pid, lines in out.items():
                for l in lines[:int(__import__('os').environ.get('MAXLINES', '3'))]:
                    print(f"    {pid}: {l}")
        else:
            print(f"{name}: silent")
    print(f"{len(results) - noisy}/{len(results)} refactorings leave all 17 checks silent")


if __name__ == "__main__":
    main()
