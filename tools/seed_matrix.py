#!/venv/bin/python
"""Runs every claimed check against every seeded change (scratch copies, 16 workers); updates seeded/*/meta.json (detected_by)
and prints the detection matrix.   usage: seed_matrix.py [--no-write] [--props=C05,C14] [seed ids...]"""
import json, multiprocessing as mp, os, shutil, subprocess, sys, tempfile
from pathlib import Path

VERIF = Path(__file__).resolve().parents[1]
sys.path.insert(0, str(VERIF / "engine"))


def one(args):
    seed, pids = args
    import check
    from core.loader import AnalysisError

    tmp = Path(tempfile.mkdtemp(prefix="pta-seed-"))
    try:
        subprocess.run(f"git -C /repo archive HEAD src docs | tar -x -C {tmp}", shell=True, check=True)
        subprocess.run(["git", "init", "-q", "."], cwd=tmp, capture_output=True)
        r = subprocess.run(["git", "apply", "--whitespace=nowarn", str(seed / "patch.diff")], cwd=tmp, capture_output=True, text=True)
        if r.returncode != 0:
            return seed.name, {"_error": "patch does not apply: " + r.stderr.strip()[-200:]}
        out = {}
        for pid in pids:
            try:
                res = check.analyse(pid, tmp)
                fired = sorted({o.rule for o in res.violations})
                if fired:
                    out[pid] = fired
            except AnalysisError as e:
                out[pid] = ["ANALYSIS-ERROR: " + str(e)[:150]]
            except Exception as e:  # noqa
                out[pid] = [f"CRASH: {type(e).__name__}: {e}"[:150]]
        return seed.name, out
    finally:
        shutil.rmtree(tmp, ignore_errors=True)


def main():
    args = [a for a in sys.argv[1:] if not a.startswith("--")]
    pids = [c["property_id"] for c in json.loads((VERIF / "MANIFEST.json").read_text())["checks"]]
    extra = [p for p in (f"C{i:02d}" for i in range(1, 18)) if (VERIF / "engine/rules" / f"{p.lower()}.py").exists() and p not in pids]
    pids += extra
    for a in sys.argv[1:]:
        if a.startswith("--props="):
            pids = a.split("=", 1)[1].split(",")
    seeds = [d for d in sorted((VERIF / os.environ.get("SEED_DIR", "seeded")).iterdir()) if (d / "meta.json").exists() and (not args or d.name in args)]
    with mp.get_context("fork").Pool(16) as pool:
        results = pool.map(one, [(s, pids) for s in seeds])
    missed = []
    for name, out in results:
        meta_p = VERIF / os.environ.get("SEED_DIR", "seeded") / name / "meta.json"
        meta = json.loads(meta_p.read_text())
        det = {pid: rules for pid, rules in out.items() if not pid.startswith("_") and not any(r.startswith(("ANALYSIS-ERROR", "CRASH")) for r in rules)}
        errs = {pid: rules for pid, rules in out.items() if pid.startswith("_") or any(r.startswith(("ANALYSIS-ERROR", "CRASH")) for r in rules)}
        own = meta["property"]
        flag = "caught" if det else "MISSED"
        if not det:
            missed.append(name)
        print(f"{name:8} {flag:7} own={'yes' if own in det else 'no ':3} " + " ".join(f"{p}:{','.join(r)}" for p, r in det.items()) + (f"   ERR {errs}" if errs else ""))
        if "--no-write" not in sys.argv and not any(a.startswith("--props=") for a in sys.argv):
            meta["detected_by"] = det
            meta["analysis_errors"] = errs
            meta_p.write_text(json.dumps(meta, indent=1) + "\n")
    print(f"{len(results) - len(missed)}/{len(results)} seeds caught; missed: {' '.join(missed)}")


if __name__ == "__main__":
    main()
