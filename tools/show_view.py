#!/venv/bin/python
"""usage: show_view.py <module> <qualname> [repo root]   -- prints the inlined view (core/inline_stmt.py) of a function"""
import ast, sys
from pathlib import Path
sys.path.insert(0, str(Path(__file__).resolve().parents[1] / "engine"))
from core.loader import Repo
from core.inline_stmt import inline_view
from rules.common import types_of
repo = Repo(Path(sys.argv[3]) if len(sys.argv) > 3 else None)
fi = repo.func(sys.argv[1], sys.argv[2])
v = inline_view(repo, fi, types_of(repo))
print(ast.unparse(v.node))
print("# inlined:", v.inlined)
