#!/bin/bash
# usage: try_patch.sh <patch.diff> <Cxx> [more ids...]   -- apply a patch to a scratch copy of /repo HEAD and run checks on it
set -u
patch=$1; shift
d=$(mktemp -d /tmp/trypatch.XXXXXX)
trap 'rm -rf "$d"' EXIT
git -C /repo archive HEAD src docs | tar -x -C "$d"
( cd "$d" && git init -q . 2>/dev/null && git apply --whitespace=nowarn "$patch" ) || { echo "PATCH DID NOT APPLY"; exit 3; }
for id in "$@"; do
  VERIF_REPO=$d VERIF_EVIDENCE_DIR=$d/ev /venv/bin/python $(dirname $(readlink -f $0))/../engine/check.py "$id" 2>&1 | grep -v WARNING | sed "s#$d#<scratch>#g" | cut -c1-400
  echo "[$id exit=${PIPESTATUS[0]}]"
done
