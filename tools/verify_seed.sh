#!/bin/bash
# usage: verify_seed.sh <seed dir containing patch.diff, demo.py>   -> prints one line of results
# Confirms: patch applies on /repo HEAD, suite result unchanged, demo exits 0 on pristine and !=0 with the patch.
s=$1
name=$(basename "$s")
wt=$(mktemp -d /tmp/seedverify.XXXXXX); rmdir "$wt"
git -C /repo worktree add -q --detach "$wt" HEAD || exit 3
cleanup(){ git -C /repo worktree remove --force "$wt" 2>/dev/null; rm -rf "$wt"; }
trap cleanup EXIT
cd "$wt"
PYTHONPATH=$wt/src timeout 300 /venv/bin/python "$s/demo.py" >/dev/null 2>&1; pristine=$?
git apply --whitespace=nowarn "$s/patch.diff" || { echo "$name: PATCH-FAILED"; exit 3; }
/venv/bin/python -m compileall -q src >/dev/null 2>&1; comp=$?
suite=$(PYTHONPATH=$wt/src timeout 600 /venv/bin/python -m pytest -q -p no:cacheprovider --timeout=30 --ignore=tests/test_architecture.py 2>&1 | tail -1)
PYTHONPATH=$wt/src timeout 300 /venv/bin/python "$s/demo.py" >/dev/null 2>&1; patched=$?
echo "$name: compile=$comp demo_pristine=$pristine demo_patched=$patched suite='$suite'"
